#!/usr/bin/env python3-vt
import json, jsonschema, sys, glob
m = json.load(open('/verif/MANIFEST.json'))
jsonschema.validate(m, json.load(open('/root/.vp/MANIFEST.schema.json')))
es = json.load(open('/root/.vp/EVIDENCE.schema.json'))
for c in m['checks']:
    e = json.load(open(c['evidence_file']))
    jsonschema.validate(e, es)
    assert e['property_id'] == c['property_id']
print('manifest + %d evidence files valid' % len(m['checks']))
