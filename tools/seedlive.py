#!/usr/bin/env python3
"""Rule liveness against the kept seeded changes (used by the thorough tier of ./vcheck):
for property P, every change under seeded/ that seeded/STATUS.json records as caught by P is applied to a scratch
worktree of /repo and check P is run against it (quick tier, evidence untouched); it must still fire.
usage: seedlive.py <P> [-j N]      prints CAUGHT / MISSED / SKIP lines"""
import json, os, re, subprocess, sys
from concurrent.futures import ThreadPoolExecutor

VERIF = os.path.dirname(os.path.dirname(os.path.abspath(__file__)))
SEEDED = os.path.join(VERIF, "seeded")


def sh(cmd, cwd=None, env=None):
    p = subprocess.run(cmd, shell=True, cwd=cwd, env=env, stdout=subprocess.PIPE, stderr=subprocess.STDOUT, text=True)
    return p.returncode, p.stdout


def one(args):
    name, pid = args
    wt = "/tmp/sl_%s_%d" % (name, os.getpid())
    rc, out = sh("git -C /repo worktree add -q --detach %s HEAD" % wt)
    if rc != 0:
        return "SKIP   %-28s (no worktree)" % name
    try:
        rc, out = sh("git apply %s/%s/patch.diff" % (SEEDED, name), cwd=wt)
        if rc != 0:
            return "SKIP   %-28s (patch no longer applies)" % name
        env = dict(os.environ, UMYA_REPO=wt, UMYA_KEEP_EVIDENCE="1", UMYA_NO_SELFTEST="1", CARGO_NET_OFFLINE="true", VERIF_TIER="quick")
        rc, out = sh("./vcheck %s --tier quick 2>&1" % pid, cwd=VERIF, env=env)
        keys = sorted(set(re.findall(r"violated: (\S+)", out)))
        return "%s %-28s %s" % ("CAUGHT" if keys else "MISSED", name, keys[:2])
    finally:
        sh("git -C /repo worktree remove --force %s" % wt)
        sh("git -C /repo worktree prune")


def main():
    pid = sys.argv[1]
    jobs = int(sys.argv[sys.argv.index("-j") + 1]) if "-j" in sys.argv else 4
    st = os.path.join(SEEDED, "STATUS.json")
    if not os.path.exists(st):
        return 0
    status = json.load(open(st))
    names = sorted(n for n, r in status.items() if pid in (r.get("caught_by") or {}) and os.path.exists(os.path.join(SEEDED, n, "patch.diff")))
    with ThreadPoolExecutor(jobs) as ex:
        for line in ex.map(one, [(n, pid) for n in names]):
            print(line, flush=True)
    return 0


if __name__ == "__main__":
    sys.exit(main())
