#!/usr/bin/env python3
"""Regenerates /verif/MANIFEST.json from the table below (keeps it schema-valid)."""
import json, os
HERE = os.path.dirname(os.path.dirname(os.path.abspath(__file__)))
CLAIMED = {}
exec(open(os.path.join(HERE, "tools", "claims.py")).read())
props = [json.loads(l) for l in open(os.path.join(HERE, "properties.jsonl"))]
checks = []
na = []
for p in props:
    pid = p["id"]
    if pid in CLAIMED:
        c = CLAIMED[pid]
        checks.append({
            "property_id": pid,
            "quick_cmd": "./vcheck %s --tier quick" % pid,
            "thorough_cmd": "./vcheck %s --tier thorough" % pid,
            "evidence_file": "/verif/evidence/%s.json" % pid,
            "replay_cmd_template": "./vcheck %s --explain {path}" % pid,
            "engine": "facts+rules",
            "level_claimed": {
                "category": "other",
                "text": c["text"],
                "design_ref": "DESIGN.md section 4, " + pid,
            },
            "level_note": c["note"],
            "technique": c["technique"],
        })
    else:
        na.append({"property_id": pid, "reason": NOT_APPLICABLE[pid]})
m = {
    "version": 1,
    "setup_cmd": "cd /verif/facts && cargo +nightly build --release --offline && cd /verif && ./vcheck warm",
    "hooks": {
        "guard": "umya_verif",
        "enable": "none needed: the checks analyse /repo's type-checked program with a rustc_private driver; /repo carries no instrumentation",
        "baseline_off_cmd": "cd /repo && cargo test --workspace --no-fail-fast --offline",
        "source_commits": [],
        "add_only": True,
    },
    "engines": [
        {"name": "facts", "path": "facts/", "serves_properties": sorted(CLAIMED), "kind_free_text": "rustc_private driver (nightly): dumps typed HIR, MIR with resolved callees and item tables of /repo's current tree"},
        {"name": "rules", "path": "rules/", "serves_properties": sorted(CLAIMED), "kind_free_text": "Python rule engines over the fact base: table agreement, field coverage, CFG path rules, dataflow slices, kernel normal forms, effects, order sensitivity, typestate"},
    ],
    "checks": checks,
    "notes": "Static analysis only. Every claimed check decides structural necessary conditions of its property for all inputs (level 'other'); none claims the behavioural statement. Known findings: known_findings.json. See DESIGN.md.",
    "not_applicable": na,
}
json.dump(m, open(os.path.join(HERE, "MANIFEST.json"), "w"), indent=1)
print("claimed", sorted(CLAIMED), "n/a", [x["property_id"] for x in na])
