#!/usr/bin/env python3
"""Regenerates the table of seeded changes in DESIGN.md (between the SEEDTABLE markers) from seeded/*/meta.json
(confirmation + detection at first evaluation) and seeded/STATUS.json (detection by the current checks)."""
import json, os, re
VERIF = os.path.dirname(os.path.dirname(os.path.abspath(__file__)))
S = os.path.join(VERIF, "seeded")
status = json.load(open(os.path.join(S, "STATUS.json")))
FIRST = json.load(open(os.path.join(S, "FIRST.json"))) if os.path.exists(os.path.join(S, "FIRST.json")) else {}
rows = ["| change | what it does | needs, to manifest | first evaluation | caught now by |", "|---|---|---|---|---|"]
def first_lines(n):
    p = os.path.join(S, n, "notes.md")
    title, needs = "", ""
    if os.path.exists(p):
        txt = open(p).read()
        for l in txt.splitlines():
            if l.strip():
                title = re.sub(r"^#+\s*", "", l.strip())
                break
        m = re.search(r"(?im)^\W*(needs?|needed to manifest|trigger|it needs)[^:\n]*:\s*(.+)$", txt)
        if m:
            needs = m.group(2).strip()
    clean = lambda s: re.sub(r"\s+", " ", s.replace("|", "/"))[:150]
    return clean(re.sub(r"^(C\d\d|Seed|Change|seed|change)[^:—–-]*[:—–-]\s*", "", title)), clean(needs)
order = lambda n: (n.split("-")[0], 0 if "-r" not in n else int(n.split("-r")[1][0]), n)
ncaught = 0
for n in sorted(status, key=order):
    mp = os.path.join(S, n, "meta.json")
    meta = json.load(open(mp)) if os.path.exists(mp) else {}
    first = FIRST.get(n) or ("caught" if meta.get("detected_by") else "missed")
    cb = status[n].get("caught_by") or {}
    rules = sorted({k.split(":", 2)[1] if k.count(":") >= 2 else k for ks in cb.values() for k in ks})
    if rules:
        ncaught += 1
    what, needs = first_lines(n)
    rows.append("| %s | %s | %s | %s | %s |" % (n, what, needs, first, ", ".join(rules) if rules else "**not caught**"))
rows.append("")
firsts = [FIRST.get(n) or "?" for n in status]
rows.append("At first contact (the checks as they were when the change arrived) %d of these %d changes were caught, %d only through a floor, %d missed; %d of %d are caught by the current checks." % (firsts.count("caught"), len(status), firsts.count("floor only"), firsts.count("missed"), ncaught, len(status)))
p = os.path.join(VERIF, "DESIGN.md")
s = open(p).read()
a, b = "<!-- SEEDTABLE:BEGIN -->", "<!-- SEEDTABLE:END -->"
assert a in s and b in s
s = s[: s.index(a) + len(a)] + "\n" + "\n".join(rows) + "\n" + s[s.index(b):]
open(p, "w").write(s)
print(rows[-1])
