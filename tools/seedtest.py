#!/usr/bin/env python3
"""Confirms a seeded change (builds, suite unchanged, demo fails with / passes without) in a scratch worktree and
runs the static checks against it.  usage: seedtest.py <seed dir with patch.diff demo.rs notes.md> <property> <name>"""
import json, os, re, subprocess, sys, shutil, time

src, prop, name = sys.argv[1], sys.argv[2], sys.argv[3]
LANE = os.environ.get("SEEDTEST_LANE", "")
WT = "/tmp/sv_wt" + LANE
TGT = "/tmp/sv_target" + LANE
VERIF = "/verif"
env = dict(os.environ, CARGO_NET_OFFLINE="true", CARGO_TARGET_DIR=TGT)


def sh(cmd, cwd=None, timeout=3600, env_=None):
    p = subprocess.run(cmd, shell=True, cwd=cwd, env=env_ or env, stdout=subprocess.PIPE, stderr=subprocess.STDOUT, text=True, timeout=timeout)
    return p.returncode, p.stdout


def suite(cwd):
    rc, out = sh("cargo test --offline --no-fail-fast 2>&1", cwd=cwd)
    passed = sum(int(m) for m in re.findall(r"test result: \w+\. (\d+) passed", out))
    failed = sorted(set(re.findall(r"^test (\S+) \.\.\. FAILED", out, re.M)))
    return passed, failed, out


if os.path.exists(WT):
    sh("git -C /repo worktree remove --force %s" % WT)
sh("git -C /repo worktree prune")
rc, out = sh("git -C /repo worktree add --detach %s HEAD" % WT)
assert rc == 0, out
os.makedirs(WT + "/tests/result_files", exist_ok=True)
shutil.copy("/repo/Cargo.lock", WT + "/Cargo.lock")
meta = {"property": prop, "name": name, "source": src, "repo_head": subprocess.check_output("git -C /repo rev-parse --short HEAD", shell=True, text=True).strip()}
try:
    # demo without the change
    shutil.copy(src + "/demo.rs", WT + "/tests/demo_seed.rs")
    rc, out = sh("cargo test --offline --test demo_seed 2>&1", cwd=WT)
    meta["demo_without_change"] = "pass" if rc == 0 and "test result: ok" in out else "FAIL"
    # apply
    rc, out = sh("git apply %s/patch.diff" % src, cwd=WT)
    meta["applies"] = rc == 0
    if rc != 0:
        meta["apply_error"] = out[-500:]
        raise SystemExit
    rc, out = sh("cargo test --offline --test demo_seed 2>&1", cwd=WT)
    meta["demo_with_change"] = "fail" if rc != 0 and "FAILED" in out else "PASSES"
    m = re.search(r"panicked at [^\n]*\n([^\n]*)", out)
    meta["demo_failure"] = (m.group(1) if m else "")[:300]
    os.remove(WT + "/tests/demo_seed.rs")
    passed, failed, out = suite(WT)
    meta["suite_with_change"] = {"passed": passed, "failed": failed}
    meta["suite_ok"] = passed == 95 and set(failed) <= {"lazy_read_and_wite_large_string", "read_large_string"}
    # static checks against the changed tree
    m = json.load(open(VERIF + "/MANIFEST.json"))
    det = {}
    env2 = dict(os.environ, UMYA_REPO=WT, CARGO_NET_OFFLINE="true", UMYA_KEEP_EVIDENCE="1")
    for c in m["checks"]:
        pid = c["property_id"]
        rc, out = sh("./vcheck %s --tier quick 2>&1" % pid, cwd=VERIF, env_=env2)
        keys = re.findall(r"violated: (\S+)", out)
        det[pid] = {"exit": rc, "violations": keys}
    meta["detection"] = det
    meta["detected_by"] = sorted(p for p, v in det.items() if v["exit"] != 0)
    meta["detected_by_own_property"] = det.get(prop, {}).get("exit", 0) != 0
finally:
    sh("git -C /repo worktree remove --force %s" % WT)
    sh("git -C /repo worktree prune")
    dst = "%s/seeded/%s" % (VERIF, name)
    os.makedirs(dst, exist_ok=True)
    for f in ("patch.diff", "demo.rs", "notes.md"):
        if os.path.exists(src + "/" + f):
            shutil.copy(src + "/" + f, dst + "/" + f)
    json.dump(meta, open(dst + "/meta.json", "w"), indent=1)
    # restore evidence written for the scratch tree: re-run on /repo is done by the caller
    print(json.dumps({k: meta.get(k) for k in ("name", "applies", "demo_without_change", "demo_with_change", "suite_ok", "detected_by")}))
