#!/usr/bin/env python3
"""Applies python-style search/replace mutants to a scratch worktree of /repo and runs a check against it.
A mutant file (mutants/*.json) is {"property": "C14", "file": "src/…", "find": "...", "replace": "...", "expect": "substring of a violated key", "note": "..."}.
usage: mutant.py [names...]   (default: all)"""
import json, os, subprocess, sys, glob, re

VERIF = os.path.dirname(os.path.dirname(os.path.abspath(__file__)))
WT = "/tmp/mut_wt_%d" % os.getpid()


def sh(cmd, **kw):
    return subprocess.run(cmd, shell=True, stdout=subprocess.PIPE, stderr=subprocess.STDOUT, text=True, **kw)


def main():
    names = sys.argv[1:]
    files = sorted(glob.glob(os.path.join(VERIF, "mutants", "*.json")))
    if names and names[0] == "--property":
        files = [f for f in files if json.load(open(f))["property"] == names[1]]
    elif names:
        files = [f for f in files if os.path.basename(f)[:-5] in names]
    sh("git -C /repo worktree add --detach %s HEAD" % WT)
    if os.path.exists("/repo/Cargo.lock"):
        sh("cp /repo/Cargo.lock %s/" % WT)
    ok_all = True
    try:
        for f in files:
            m = json.load(open(f))
            muts = m["edits"] if "edits" in m else [m]
            sh("git -C %s checkout -- ." % WT)
            applied = True
            for e in muts:
                p = os.path.join(WT, e["file"])
                s = open(p).read()
                if s.count(e["find"]) != 1:
                    applied = False
                    break
                open(p, "w").write(s.replace(e["find"], e["replace"]))
            name = os.path.basename(f)[:-5]
            if not applied:
                print("SKIP   %-40s (no longer applies)" % name)
                continue
            r = sh("./vcheck %s --tier quick" % m["property"], cwd=VERIF, env=dict(os.environ, UMYA_REPO=WT, VERIF_TIER="quick", UMYA_KEEP_EVIDENCE="1"))
            keys = re.findall(r"violated: (\S+)", r.stdout)
            if "fact extraction failed" in r.stdout or "error" in r.stdout and not keys and r.returncode not in (0, 1):
                print("BROKEN %-40s (mutant does not compile?)\n%s" % (name, r.stdout[-600:]))
                ok_all = False
                continue
            hit = [k for k in keys if m["expect"] in k]
            status = "CAUGHT" if hit else ("MISSED" if not m.get("benign") else "QUIET")
            if m.get("benign"):
                status = "QUIET " if not keys else "NOISY "
                if keys:
                    ok_all = False
            elif not hit:
                ok_all = False
            print("%s %-40s %s" % (status, name, (hit or keys)[:2]))
    finally:
        sh("git -C /repo worktree remove --force %s" % WT)
        sh("git -C /repo worktree prune")
    return 0 if ok_all else 1


if __name__ == "__main__":
    sys.exit(main())
