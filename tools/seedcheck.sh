#!/bin/bash
# usage: seedcheck.sh <seed name> <pid>...  — applies seeded/<name>/patch.diff to a scratch worktree and runs the checks against it
n=$1; shift
wt=/tmp/sc_$$
git -C /repo worktree add -q --detach $wt HEAD || exit 2
cp /repo/Cargo.lock $wt/ 2>/dev/null
if git -C $wt apply /verif/seeded/$n/patch.diff; then
  for p in "$@"; do UMYA_KEEP_EVIDENCE=1 UMYA_REPO=$wt /verif/vcheck $p 2>&1 | grep -E "violated:|^C[0-9]+ tier" | cut -c1-220; done
else echo "patch does not apply"; fi
git -C /repo worktree remove --force $wt; git -C /repo worktree prune
