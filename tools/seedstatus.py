#!/usr/bin/env python3
"""Re-evaluates every kept seeded change (seeded/<name>/patch.diff) against the CURRENT static checks.

Each patch is applied to its own scratch worktree of /repo (removed afterwards); every claimed property's quick check is
run against that tree (UMYA_REPO, evidence untouched).  Writes seeded/STATUS.json and seeded/STATUS.md.
usage: seedstatus.py [-j N] [name ...]"""
import json, os, re, subprocess, sys
from concurrent.futures import ThreadPoolExecutor

VERIF = os.path.dirname(os.path.dirname(os.path.abspath(__file__)))
SEEDED = os.path.join(VERIF, "seeded")
BENIGN = False
if "--benign" in sys.argv:
    # behaviour-preserving refactorings written by sub-agents: every check must stay quiet on them
    sys.argv.remove("--benign")
    SEEDED = os.path.join(VERIF, "benign")
    BENIGN = True


def sh(cmd, cwd=None, env=None):
    p = subprocess.run(cmd, shell=True, cwd=cwd, env=env, stdout=subprocess.PIPE, stderr=subprocess.STDOUT, text=True)
    return p.returncode, p.stdout


def evaluate(name):
    wt = "/tmp/ss_%s_%d" % (name, os.getpid())
    res = {"name": name, "caught_by": {}, "error": None}
    rc, out = sh("git -C /repo worktree add -q --detach %s HEAD" % wt)
    if rc != 0:
        res["error"] = out[-300:]
        return res
    try:
        rc, out = sh("git apply %s/%s/patch.diff" % (SEEDED, name), cwd=wt)
        if rc != 0:
            res["error"] = "patch does not apply: " + out[-300:]
            return res
        env = dict(os.environ, UMYA_REPO=wt, UMYA_KEEP_EVIDENCE="1", CARGO_NET_OFFLINE="true")
        pids = [c["property_id"] for c in json.load(open(os.path.join(VERIF, "MANIFEST.json")))["checks"]]
        for pid in pids:
            rc, out = sh("./vcheck %s --tier quick 2>&1" % pid, cwd=VERIF, env=env)
            keys = sorted(set(re.findall(r"violated: (\S+)", out)))
            if rc != 0:
                res["caught_by"][pid] = keys or ["(exit %d)" % rc]
    finally:
        sh("git -C /repo worktree remove --force %s" % wt)
        sh("git -C /repo worktree prune")
    return res


def main():
    args = sys.argv[1:]
    jobs = 4
    if args[:1] == ["-j"]:
        jobs = int(args[1])
        args = args[2:]
    names = args or sorted(d for d in os.listdir(SEEDED) if os.path.exists(os.path.join(SEEDED, d, "patch.diff")))
    status_path = os.path.join(SEEDED, "STATUS.json")
    status = json.load(open(status_path)) if os.path.exists(status_path) else {}
    with ThreadPoolExecutor(jobs) as ex:
        for r in ex.map(evaluate, names):
            status[r["name"]] = r
            print(r["name"], "ERROR " + r["error"] if r["error"] else (sorted(r["caught_by"]) or ("QUIET" if BENIGN else "MISSED")), flush=True)
    json.dump(status, open(status_path, "w"), indent=1, sort_keys=True)
    lines = ["| change | what it does (from its notes.md) | %s |" % ("alarms raised (must be none)" if BENIGN else "caught by (rule instances, current checks)"), "|---|---|---|"]
    for n in sorted(status):
        notes = os.path.join(SEEDED, n, "notes.md")
        title = ""
        if os.path.exists(notes):
            for l in open(notes):
                if l.strip():
                    title = l.strip().lstrip("# ").strip()
                    break
        cb = status[n]["caught_by"]
        rules = sorted({":".join(k.split(":")[:2]).split(":", 1)[1] if ":" in k else k for ks in cb.values() for k in ks})
        lines.append("| %s | %s | %s |" % (n, title.replace("|", "/")[:160], ", ".join(rules) if rules else ("quiet" if BENIGN else "**not caught**")))
    open(os.path.join(SEEDED, "STATUS.md"), "w").write("\n".join(lines) + "\n")


main()
