# Table of claimed properties (read by mkmanifest.py).
NOTE = ("Trusted base: rustc's HIR/MIR for this crate (nightly 1.97), the fact extractor, the rule engines; "
        "dependencies summarised by small tables (DESIGN.md section 7). Decides the listed structural clauses only.")
PENDING = "check not built yet (planned, DESIGN.md section 4)"
NOT_APPLICABLE = {
    "C17": "bijectivity of base-26 and regex codecs over the grid is settled only by evaluation; no structural clause strong enough to be a decision (DESIGN.md section 4)",
    "C18": "pure calendar / floating-point arithmetic; a constants check would be a frozen fragment (DESIGN.md section 4)",
    "C19": "decimal rounding by string surgery on f64::to_string; value-level in every clause (DESIGN.md section 4)",
}
for _p in ["C%02d" % i for i in range(1, 21)]:
    NOT_APPLICABLE.setdefault(_p, PENDING)
CLAIMED = {
    "C02": {
        "text": "Decides structural necessary conditions of package validity for all workbooks: every part-name template the writer can create receives, through the extracted override-rule chain or Default tables, the content type the standard assigns (24 templates); every internal relationship target resolves to a part template the writer creates (dead branches proven by never-assigned fields); the ordered id-consuming element sequence of sheet/workbook XML equals the relationship sequence of the matching rels writer in kind, guard, loop and increment; id-consuming loops iterate ordered collections; emitted child elements follow CT_Worksheet/CT_Workbook/CT_Stylesheet order; rows come from a list sorted by row number and cells from the ordered index; attributes and text reach the sink only through escaping wrappers; <t> carries xml:space under a whitespace test; sheet additions/renames are dominated by the uniqueness check. Does not decide what an independent reader decodes. Also decided: numbered part names are allocated only after a negative existence test of that very name (or from a counter tested that way); <sheet> ids derive from the position counter alone; apostrophe doubling of quoted sheet names is unconditional; for all 61 attribute enums the literal written for a variant is read back as that variant, and for 20 of them every literal is a value of the ECMA-376 simple type. Characters XML cannot carry are a listed finding.",
        "note": NOTE,
        "technique": "table agreement from typed HIR (part templates, rule chain, relationship targets, rId event sequences, element order) against spec tables; who-may-call; dominators",
    },
    "C06": {
        "text": "Decides structural necessary conditions of annotation fidelity for all workbooks: hyperlink/drawing/table ids pair by an identical, ordered event sequence in the sheet and rels writers (C02.c/d); every attribute any live struct reads is written back (crate-wide symmetry, 413 attributes); every annotation element the sheet writer emits has a reader arm for the event variant it is written in; the <sheet> attributes written are the ones read and both sides walk the collection in order; sheet adds/renames pass the uniqueness check. Does not decide comment/VML re-join or active-tab arithmetic. Also decided: a sheet-kept defined name is written with a localSheetId derived from the sheet's position only; self-closing element variants and enum tables agree (shared with C04).",
        "note": NOTE,
        "technique": "rId event-sequence agreement, reader/writer name tables and dispatch tables from typed HIR; dominators",
    },
    "C03": {
        "text": "Decides structural necessary conditions of faithful reading for all files: attribute bytes become model strings only through the central extractor with exactly one unescape and no caller unescapes again (who-may-access + taint); shared-formula children are produced by the relative-translation kernel with per-axis signed (child - anchor) offsets, never by the insert kernels; every ST_CellType value has a reader arm (t=\"d\" is a listed finding) and no reader-side value setter can clear the formula read from the same element. Does not decide agreement with an independent decoder on concrete files. Also decided: every value of 20 ECMA-376 simple types is accepted by the corresponding enum's from_str.",
        "note": NOTE,
        "technique": "taint / who-may-access over MIR field projections; typed-HIR dispatch tables vs ECMA ST_CellType; call-graph reachability; operand dataflow",
    },
    "C04": {
        "text": "Decides structural necessary conditions of re-save stability for all files: exactly one escape and one unescape on the text and attribute channels (who-may-call for raw writers and BytesStart construction, wrapper sanitizers, every Event::Text consumer unescapes once, central attribute extractor unescapes once, no double unescape); for all 160+ structs with a live reader and writer every attribute read into the model is written back under the same name by the struct's writer closure (listed exceptions with reasons); every style table scans before it appends. Does not decide fixed-point equality of generations. Also decided crate-wide: elements that can be written self-closing with attributes are dispatched under Event::Empty by the readers that build them (204 writer/reader pairs); enum to-string/from-string tables agree (496 variants).",
        "note": NOTE,
        "technique": "reader/writer name-table agreement from typed HIR over all structs; who-may-call / taint over the call graph; dominator rule on scan loops",
    },
    "C05": {
        "text": "Decides structural necessary conditions of style fidelity for all style assignments: each of the 22 content-key functions reads every field of its struct (listed exceptions); each interning table compares the element type's key on both operands and the whole-style lookup uses the derived PartialEq; no run of concatenated key components contains two variable-width components or a continuable finite-set element (key unambiguity); component ids are written from and read back against the same table; apply flags are set under the presence of their own component and consulted for it. Reader/writer symmetry of the style structs is decided by the crate-wide symmetry rule (C04.b). Does not decide equality of reloaded styles. Also decided: no field's contribution to a key is conditional on other fields; no precision or slicing in key rendering; the <col> run merge compares every field the run writer emits on current (loop-carried) values; every path through the row/cell loops of the sheet writer writes the element or skips it under conditions that read every persisted field; the cell writer's emptiness test reads every Style field interning persists.",
        "note": NOTE,
        "technique": "field-coverage (E2) over MIR; key-template width classification from typed HIR format templates; same-source dataflow; control-dependence of apply flags",
    },
    "C11": {
        "text": "Decides structural necessary conditions of lazy/eager equivalence for all access patterns: (typestate) wherever an element of the workbook's sheet list that may still be raw is passed to code touching any field that deserialisation fills (set L computed from the materialiser's reach), the use is dominated by a materialisation or control-dependent on is_deserialized(); the raw-sheet writer names the sheet part and its own relationships part from the same sheet number; the tables raw sheets index into (shared strings, cellXfs, fonts, fills, borders, style list) are never shrunk or reordered anywhere in the crate. Does not decide equality of lazily and eagerly loaded content. Also decided: an is_deserialized() guard does not stand in for materialisation at a mutating use; the materialise-all loop is reached on every path; every sheet number handed to a part writer is position+1 in every pass (counter or enumerate); a raw sheet's own relationships are written once; numbered part names are fresh; no raw sheet is written after a numbered name was allocated.",
        "note": NOTE,
        "technique": "typestate by dominators/control dependence on MIR with a computed field set; same-source dataflow; who-may-mutate over the whole crate",
    },
    "C14": {
        "text": "Decides the structure of agile encryption for all passwords and package sizes: the symbolic normal form of encrypt() (every callee opaque, random sources distinguished by call site) unifies with the MS-OFFCRYPTO dataflow template for all 17 EncryptionInfo attributes — same-source parameters, operand order of every crypt/KDF/IV call, the five block keys, HMAC over the very buffer that is stored, five pairwise distinct fresh random values with the RNG result consumed; hash-chain operand order at the three KDF sites, IV shape and 0x36 padding, segment size 4096, little-endian segment counter from 0 by 1, 8-byte length prefix of the same input. Does not decide digest or cipher values (interoperability). Also decided: the password reaches the first hash as UTF-16LE code units (encode_utf16 + to_le_bytes, followed into helpers).",
        "note": NOTE,
        "technique": "symbolic normal form (MIR) unified with a dataflow template from the standard; operand-order dataflow at hash sites; constant tables",
    },
    "C15": {
        "text": "Decides the structure of the protection-password hashing for all passwords and the three protection kinds: the password reaches the object only through the hash; each entry point assigns exactly the four fields of one family and unconditionally clears that family's raw password, families pairwise distinct (derived from the fields the setters write); stored salt/spin/algorithm/hash are the very values used/produced, salt from its own random call; chain shape H(salt||UTF-16LE(pw)), then H(prev||LE32(i)) in the spin loop. Does not decide the hash value.",
        "note": NOTE,
        "technique": "symbolic normal form (MIR) with setter summaries by written field; sibling cross-check; operand-order dataflow at hash sites",
    },
    "C20": {
        "text": "Decides structural necessary conditions of the CSV rendering for all sheets and option combinations: the loop nest is exactly [1,highest row] x [1,highest column] of the active sheet (affine index summary, bounds paired with the right extent component, (column,row) lookup order, rows outermost); ',' joiner and one CR LF per record; trim/wrap guarded by their own options, str::trim on both sides, trim before wrap, wrap character on both sides; wrap character doubled before wrapping; every CsvEncodeValues variant dispatches to the encoding_rs static of the same encoding (table from the WHATWG names). The unquoted-delimiter case is a listed finding. Does not decide the parser round trip.",
        "note": NOTE,
        "technique": "typed-HIR structural rules: affine loop-bound summary, literal tables, guard/ordering checks, enum dispatch table vs spec table",
    },
    "C12": {
        "text": "Decides, for all histories, that a save is free of effects on the workbook: type-level inventory of interior mutability reachable from Spreadsheet; no mutable lock acquisition reachable from any function that serialises a &Spreadsheet is on an object originating in the workbook (interprocedural origin tracing through parameters and closure captures); the tables handed to the part writers are created inside the save. The residual (private copy of the loaded table when a raw sheet exists) is a listed finding. Does not decide the textual content of the package. Also decided: the table handed to the writers is never the workbook's own on any path (must-analysis on direct producers); no function outside the save graph acquires a write lock at all (clones share the Arc).",
        "note": NOTE,
        "technique": "effect/ownership analysis: interior-mutability inventory by type, lock-acquisition origin tracing over the resolved call graph (MIR)",
    },
    "C16": {
        "text": "Decides the schedule-quantified property by non-interference: no interior-mutable global state, a save mutably acquires only objects it created itself (C12 rules), and every remaining acquisition on workbook-shared state is a read whose guard's live range (MIR drops) contains no call that can reach another acquisition and whose result is not used for a decision after release. Hence concurrent savers share no mutable state, cannot deadlock, and every interleaving equals the sequential run. Does not enumerate interleavings.",
        "note": NOTE,
        "technique": "non-interference argument from effect analysis; guard live ranges and nesting from MIR drops + call-graph reachability",
    },
    "C13": {
        "text": "Decides structural necessary conditions of all-or-nothing saving for every fault position: each save entry point (found by role) creates files only at names derived from the temporary name; fs::rename has (temp, destination) operands and is unreachable from the failure edge of any preceding fallible step; every BufWriter on the path is flushed with the result checked before the rename (interprocedural summary); no io::Result / XlsxError of an operation on a real sink is unwrapped or dropped on the save call graph; the step that writes the temp file can report failure. Does not decide crash timing or behaviour of the OS rename. Also decided: nothing but the temporary file is removed on the save path; compound-file streams are flushed with the result checked on the success path; no partial io::Write::write on a real sink.",
        "note": NOTE,
        "technique": "MIR path rules (must-pass-through, success-edge reachability), operand-order dataflow, result-discipline over the resolved call graph with interprocedural flush summaries",
    },
    "C01": {
        "text": "Decides structural necessary conditions of the cell round trip for all cells: the writer's (kind, formula) -> t= table, extracted as a normal form of Cell::write_to, composed with the reader's t= -> setter -> constructible-kinds table, preserves every kind of the property's domain; the <v> payload of every kind is data-dependent on the value; the bool literals agree; text reaches the XML sink only through escaping wrappers (who-may-call) and every Event::Text consumer unescapes exactly once; the shared-string key covers all content fields. Does not decide f64/Unicode fidelity or equality of reloaded cell sets. Also decided: the shared-string map is keyed by the item's full content key at every lookup/registration and a new string's index is the item list's length; numbers are rendered without a float-to-integer cast; text is not trimmed on the way in or out; every struct whose root element can be written self-closing with attributes is built from Event::Empty by its readers.",
        "note": NOTE,
        "technique": "normal-form extraction of the writer (MIR) vs reader dispatch tables (typed HIR); who-may-call over the resolved call graph; field-coverage (E2)",
    },
    "C10": {
        "text": "Decides structural necessary conditions of store coherence for all histories: every key-changing operation on the cell map is paired with both index operations under the same path condition or followed by the bulk rebuild; index orientation (as-is vs swapped) is consistent across all writers, the rebuild and every reader (symbolic normal forms of the iterator chains, name-free); the rebuild keys each cell by its own coordinate and follows every coordinate mutation of stored cells; inserters are called only from row-establishing contexts; the extent getter reads the right index. Does not decide agreement of listings at run time (needs the std-collection assumption). Also decided: every public extent getter of the store's owner derives from the store's extent function and from no other field.",
        "note": NOTE,
        "technique": "symbolic normal forms of loop-free methods incl. iterator chains and closures (MIR), event pairing under equal path conditions, post-dominance rules, who-may-call over the resolved call graph",
    },
    "C07": {
        "text": "Decides structural necessary conditions of grid-like relocation for all edits: the extracted normal forms of the scalar insert/remove/band kernels and all sibling AdjustmentValue impls equal reference tables on every order type (finite, exhaustive); the range-removal predicate equals the per-axis reference for every API-reachable edit; type-driven fan-out coverage of every adjustment impl; retain-before-shift with the element's own band predicate; own-content moves guarded by sheet identity; axis slots not crossed; move/copy bounds dominate mutations. Does not decide equality with a reference grid after arbitrary histories. Also decided: a move clears the source through the full-rectangle enumerator; the cell-replacement helper assigns value and style from the incoming cell on every path; the row-settings map is re-keyed on every path after its entries were shifted.",
        "note": NOTE,
        "technique": "kernel normal-form extraction from MIR compared over order types; type-reachability fan-out coverage; dominator / control-dependence rules; operand-order dataflow",
    },
    "C08": {
        "text": "Decides structural necessary conditions of reference preservation: shift not guarded by $ flags; per-axis scalar wiring and role agreement; one-sided Option checks; sheet-matching guard equals the reference truth table (16 rows); edited/own sheet names keep their slots along the whole call chain; every holder of sheet-qualified references is visited by the sheet-aware fan-out; existence of a #REF! path; tokenizer loop progress (termination). Does not decide that non-reference lexemes survive for all formulas. Also decided: results of the coordinate parser are wired to their own axis (number from component 0/1, lock flag from 2/3) at every consumer, and the coordinate renderer puts each `$` under the lock parameter of the component it precedes (format! or push style); the plot area's formula collector reads every chart kind independently of the others.",
        "note": NOTE,
        "technique": "control-dependence and dataflow rules on MIR; boolean normal form from typed HIR vs reference truth table; type-driven fan-out coverage; loop-progress path rule",
    },
    "C09": {
        "text": "Decides, for all formulas, four structural necessary conditions in the tokenizer and the translation kernel: loop progress of every counter loop, every lexer mode enterable, chars().nth(counter+k) dominated by an established bound (difference-bound dataflow), and the translation kernel's per-axis lock/offset/range-guard wiring plus the one-sided Option check. Does not decide render(parse(f)) = f.",
        "note": NOTE,
        "technique": "MIR CFG path rules (loop progress, control dependence), difference-bound abstract interpretation, backward dataflow slices",
    },
}
