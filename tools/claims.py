# Table of claimed properties (read by mkmanifest.py).
NOTE = ("Trusted base: rustc's HIR/MIR for this crate (nightly 1.97), the fact extractor, the rule engines; "
        "dependencies summarised by small tables (DESIGN.md section 7). Decides the listed structural clauses only.")
PENDING = "check not built yet (planned, DESIGN.md section 4)"
NOT_APPLICABLE = {
    "C17": "bijectivity of base-26 and regex codecs over the grid is settled only by evaluation; no structural clause strong enough to be a decision (DESIGN.md section 4)",
    "C18": "pure calendar / floating-point arithmetic; a constants check would be a frozen fragment (DESIGN.md section 4)",
    "C19": "decimal rounding by string surgery on f64::to_string; value-level in every clause (DESIGN.md section 4)",
}
for _p in ["C%02d" % i for i in range(1, 21)]:
    NOT_APPLICABLE.setdefault(_p, PENDING)
CLAIMED = {
    "C09": {
        "text": "Decides, for all formulas, four structural necessary conditions in the tokenizer and the translation kernel: loop progress of every counter loop, every lexer mode enterable, chars().nth(counter+k) dominated by an established bound (difference-bound dataflow), and the translation kernel's per-axis lock/offset/range-guard wiring plus the one-sided Option check. Does not decide render(parse(f)) = f.",
        "note": NOTE,
        "technique": "MIR CFG path rules (loop progress, control dependence), difference-bound abstract interpretation, backward dataflow slices",
    },
}
