#!/usr/bin/env python3
"""Prints the rule inventory table of DESIGN.md section 4.x from the evidence files (instances on the current tree / floor)."""
import json, glob, os
VERIF = os.path.dirname(os.path.dirname(os.path.abspath(__file__)))
print("| Prop. | Rules (instances/floor) |")
print("|---|---|")
for f in sorted(glob.glob(os.path.join(VERIF, "evidence", "C*.json"))):
    d = json.load(open(f))
    cells = []
    for r in d["coverage"]["per_rule"]:
        rid = r["rule"]
        if rid.startswith("features=") or rid.endswith(".anchor"):
            continue
        short = rid[len(d["property_id"]) + 1:] if rid.startswith(d["property_id"] + ".") else rid
        words = r["text"].split(":")[0]
        cells.append("%s %s %d/%d" % (short, words[:48], r["instances"], r["floor"]))
    print("| %s | %s |" % (d["property_id"], " · ".join(cells)))
