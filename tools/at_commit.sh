#!/bin/bash
# usage: at_commit.sh <commit> <pid>...   — runs checks against a scratch worktree of /repo at <commit>
c=$1; shift
wt=/tmp/atc_$$
git -C /repo worktree add -q --detach $wt $c || exit 2
cp /repo/Cargo.lock $wt/ 2>/dev/null
for p in "$@"; do UMYA_KEEP_EVIDENCE=1 UMYA_REPO=$wt /verif/vcheck $p 2>&1 | grep -E "violated:|^C[0-9]+ tier|KNOWN|floor" ; done
git -C /repo worktree remove --force $wt; git -C /repo worktree prune
