"""Queries over the typed HIR tree (E1/E2): walking, literal match tables, `if x == "lit"`
chains, format templates, callee sets."""

CHILD_KEYS = (
    "recv", "callee", "args", "base", "idx", "e", "l", "r", "cond", "then", "else", "init", "els", "scrut", "guard",
    "arms", "body", "stmts", "expr", "es", "fields",
)


def children(n):
    """Direct sub-nodes (expressions / blocks / arms) of a HIR node."""
    out = []
    if not isinstance(n, dict):
        return out
    for k in CHILD_KEYS:
        v = n.get(k)
        if v is None:
            continue
        if isinstance(v, dict):
            out.append(v)
        elif isinstance(v, list):
            for x in v:
                if isinstance(x, dict):
                    if k == "fields" and "e" in x:
                        out.append(x["e"])
                    elif k == "arms":
                        out.append(x)
                    else:
                        out.append(x)
    return out


def walk(n):
    """Pre-order walk over all nodes (arms are yielded as nodes without "k")."""
    stack = [n]
    while stack:
        x = stack.pop()
        if not isinstance(x, dict):
            continue
        yield x
        cs = children(x)
        stack.extend(reversed(cs))


def calls(n):
    """All call / method-call nodes below n, pre-order (source order)."""
    for x in walk(n):
        if x.get("k") in ("call", "mcall"):
            yield x


def callee(n):
    return n.get("def")


def called_defs(n):
    return [x.get("def") for x in calls(n) if x.get("def")]


def strip(n):
    """Peel reference / deref / cast / block-with-only-expr / method adapters that do not change the value."""
    while isinstance(n, dict):
        k = n.get("k")
        if k == "ref" or (k == "un" and n.get("op") == "Deref") or k == "cast":
            n = n["e"]
        elif k == "block" and not n.get("stmts") and n.get("expr"):
            n = n["expr"]
        elif k == "semi":
            n = n["e"]
        else:
            break
    return n


IDENTITY_METHODS = {
    "as_str", "as_ref", "to_string", "to_owned", "clone", "into", "as_bytes", "borrow", "deref", "as_slice",
    "to_vec", "into_owned", "as_mut", "trim",
}


def lit_value(n):
    n = strip(n)
    if isinstance(n, dict) and n.get("k") == "lit":
        return n.get("v")
    return None


def pat_literals(p):
    """Literal values matched by a pattern (through `|`), or None if it is a catch-all."""
    k = p.get("k")
    if k == "lit":
        return [p.get("v")]
    if k == "or":
        out = []
        for s in p["subs"]:
            v = pat_literals(s)
            if v is None:
                return None
            out.extend(v)
        return out
    if k == "ref":
        return pat_literals(p["sub"])
    if k == "path":
        return ["path:" + p.get("def", "?")]
    if k in ("ts", "struct") and not p.get("subs") and not p.get("fields"):
        return ["path:" + p.get("def", "?")]
    return None


def match_tables(n, want_src=("Normal",)):
    """All `match` nodes below n whose arms carry literal (string / byte-string / path) patterns.
    Yields (match node, [(literals or None, arm)])."""
    for x in walk(n):
        if x.get("k") == "match" and x.get("src") in want_src:
            rows = []
            anylit = False
            for a in x["arms"]:
                lits = pat_literals(a["pat"])
                if lits is not None:
                    anylit = True
                rows.append((lits, a))
            if anylit:
                yield x, rows


def eq_literal_test(cond):
    """If cond is `<expr> == "lit"` / `"lit" == <expr>` (through PartialEq::eq too), return (expr, lit, negated)."""
    c = strip(cond)
    if not isinstance(c, dict):
        return None
    if c.get("k") == "bin" and c.get("op") in ("==", "!="):
        lv, rv = lit_value(c["l"]), lit_value(c["r"])
        neg = c["op"] == "!="
        if rv is not None and lv is None:
            return (c["l"], rv, neg)
        if lv is not None and rv is None:
            return (c["r"], lv, neg)
    if c.get("k") == "un" and c.get("op") == "Not":
        r = eq_literal_test(c["e"])
        if r:
            return (r[0], r[1], not r[2])
    # <expr>.is_empty() is <expr> == ""
    if c.get("k") == "mcall" and c.get("name") == "is_empty" and not c.get("args") and (c.get("def") or "").endswith(("str>::is_empty", "String::is_empty")):
        return (c["recv"], "", False)
    return None


def if_chain(n):
    """Flatten `if a {..} else if b {..} else {..}` into [(cond or None, block)]."""
    out = []
    while isinstance(n, dict) and n.get("k") == "if":
        out.append((n["cond"], n["then"]))
        n = n.get("else")
        n2 = strip(n) if n else None
        if n2 is not None and n2.get("k") == "if":
            n = n2
    if n is not None:
        out.append((None, n))
    return out


def cond_disjuncts(c):
    c = strip(c)
    if isinstance(c, dict) and c.get("k") == "bin" and c.get("op") == "||":
        return cond_disjuncts(c["l"]) + cond_disjuncts(c["r"])
    return [c]


def cond_conjuncts(c):
    c = strip(c)
    if isinstance(c, dict) and c.get("k") == "bin" and c.get("op") == "&&":
        return cond_conjuncts(c["l"]) + cond_conjuncts(c["r"])
    return [c]


# ---- format templates --------------------------------------------------------------------
def decode_template(raw, with_opts=False):
    """Decode rustc's format_args bytecode (rustc_ast_lowering/format.rs) into pieces:
    ("lit", str) | ("arg", position)."""
    out = []
    i = 0
    nxt = 0
    b = raw
    while i < len(b):
        c = b[i]
        if c == 0:
            break
        if c < 0x80:
            out.append(("lit", bytes(b[i + 1 : i + 1 + c]).decode("utf-8", "replace")))
            i += 1 + c
        elif c == 0x80:
            ln = b[i + 1] | (b[i + 2] << 8)
            out.append(("lit", bytes(b[i + 3 : i + 3 + ln]).decode("utf-8", "replace")))
            i += 3 + ln
        elif c >= 0xC0:
            opts = c & 0x3F
            i += 1
            if opts & 1:
                i += 4
            if opts & 2:
                i += 2
            if opts & 4:
                i += 2
            pos = nxt
            if opts & 8:
                pos = b[i] | (b[i + 1] << 8)
                i += 2
            out.append(("arg", pos) if not with_opts else ("arg", pos, opts))
            nxt = pos + 1
        else:
            raise ValueError("unknown format bytecode %r" % c)
    return out


def format_specs(n):
    """Option bits of every placeholder of every format template below n (bit 2 = width, bit 4 = precision)."""
    out = []
    for x in walk(n):
        if x.get("k") == "call" and x.get("def", "").startswith("std::fmt::Arguments") and x["def"].endswith("::new") and x.get("args"):
            lit = strip(x["args"][0])
            raw = lit.get("raw")
            if raw is None:
                raw = list(lit.get("v", "").encode())
            try:
                out += [(p[2], x.get("ln")) for p in decode_template(raw, with_opts=True) if p[0] == "arg"]
            except (ValueError, IndexError):
                out.append((None, x.get("ln")))
    return out


def format_node(n):
    """If n is (or wraps) a format_args expansion, return [("lit", s) | ("arg", expr node)] else None."""
    found = None
    stack = [n]
    while stack:
        x = stack.pop()
        if not isinstance(x, dict):
            continue
        if x is not n and x.get("mac") and x["mac"][0] in ("format", "write", "writeln", "print", "println", "format_args", "panic"):
            continue  # a nested formatting macro: its template is not ours
        if x.get("k") == "call" and x.get("def", "").startswith("std::fmt::Arguments"):
            found = x
            break
        stack.extend(reversed(children(x)))
    if found is None:
        return None
    d = found["def"]
    if "from_str" in d:
        v = lit_value(found["args"][0])
        return [("lit", v)]
    if not d.endswith("::new"):
        return None
    lit = strip(found["args"][0])
    raw = lit.get("raw")
    if raw is None:
        raw = list(lit.get("v", "").encode())
    pieces = decode_template(raw)
    # argument array: either a local `args` bound in the enclosing block or an inline array
    arr = strip(found["args"][1])
    tuple_es = None
    arr_es = None
    if arr.get("k") == "array":
        arr_es = arr["es"]
    else:
        lid = arr.get("lid")
        # find the let statements in n
        for x in walk(n):
            if x.get("k") == "let" and x["pat"].get("k") == "bind":
                init = x.get("init")
                if x["pat"].get("lid") == lid and init and strip(init).get("k") == "array":
                    arr_es = strip(init)["es"]
                elif init and strip(init).get("k") == "tup" and x["pat"].get("name") == "args":
                    tuple_es = strip(init)["es"]
    args = []
    for e in arr_es or []:
        a = strip(e)
        inner = strip(a["args"][0]) if a.get("k") == "call" and a.get("args") else a
        if inner.get("k") == "field" and tuple_es is not None and strip(inner["base"]).get("name", strip(inner["base"]).get("local")) in ("args",):
            inner = strip(tuple_es[int(inner["name"])])
        args.append(inner)
    out = []
    for kind, v in pieces:
        if kind == "lit":
            out.append(("lit", v))
        else:
            out.append(("arg", args[v] if v < len(args) else None))
    return out


def template_string(pieces, render_arg=None):
    s = ""
    for kind, v in pieces:
        if kind == "lit":
            s += v
        else:
            s += render_arg(v) if render_arg else "{}"
    return s


def for_loops(n):
    """All desugared `for` loops below n: yields (node, iterable expr, loop variable pattern, body)."""
    for x in walk(n):
        if x.get("k") == "match" and x.get("src") == "ForLoopDesugar":
            sc = strip(x["scrut"])
            if sc.get("k") == "call" and sc.get("def", "").endswith("IntoIterator::into_iter") and sc.get("args"):
                it = sc["args"][0]
                try:
                    loop = x["arms"][0]["body"]
                    inner = [y for y in loop["body"]["stmts"] if y.get("k") == "match" and y.get("src") == "ForLoopDesugar"] or [
                        y for y in [loop["body"].get("expr")] if y and y.get("k") == "match"
                    ]
                    m = inner[0]
                    some = [a for a in m["arms"] if a["pat"].get("def", "").endswith("Some")][0]
                    pat = some["pat"]
                    var = (pat.get("subs") or [f["pat"] for f in pat.get("fields", [])])[0]
                    yield x, it, var, some["body"]
                except (KeyError, IndexError, TypeError):
                    continue


def contains(n, node):
    return any(x is node for x in walk(n))
