"""Ordered relationship-id allocation events of a writer function (typed HIR, source order) — used by C02.c / C06.a."""
import hirq


def _local_lids(n):
    return [x.get("lid") for x in hirq.walk(n) if x.get("k") == "path" and "lid" in x]


LETS = {}  # lid -> init expression of immutable `let` bindings of the function being walked (set by Seq.run)


def guard_names(cond, depth=0):
    """Normalised names of the crate callees a guard condition consults (has_/get_/is_ prefixes stripped) and its
    polarity. Negations are counted through `!` and through local bindings (`let ext = !x.get_location(); if ext`)."""
    out = set()
    c0 = hirq.strip(cond)
    neg = False
    while isinstance(c0, dict) and c0.get("k") == "un" and c0.get("op") == "Not":
        neg = not neg
        c0 = hirq.strip(c0["e"])
    if isinstance(c0, dict) and c0.get("k") == "path" and c0.get("lid") in LETS and depth < 4:
        names, n2 = guard_names(LETS[c0["lid"]], depth + 1)
        return names, neg != n2
    for c in hirq.calls(c0):
        d = c.get("def") or ""
        if d.startswith("structs::") or d.startswith("helper::"):
            nm = d.split("::")[-1]
            for p in ("has_", "get_", "is_"):
                if nm.startswith(p):
                    nm = nm[len(p):]
            out.add(nm)
    for x in hirq.walk(c0):
        if x.get("k") == "path" and x.get("lid") in LETS and depth < 4:
            out |= guard_names(LETS[x["lid"]], depth + 1)[0]
    return frozenset(out), neg


def _diverges(block):
    """Does the block end by leaving the enclosing flow (continue / break / return)?"""
    b = hirq.strip(block)
    if not isinstance(b, dict):
        return False
    last = None
    if b.get("k") == "block":
        last = b.get("expr") or (b.get("stmts") or [None])[-1]
    else:
        last = b
    if isinstance(last, dict) and last.get("k") in ("semi", "stmt", "expr_stmt") and "e" in last:
        last = last["e"]
    last = hirq.strip(last) if isinstance(last, dict) else None
    return isinstance(last, dict) and last.get("k") in ("continue", "break", "ret", "return")


class Seq:
    def __init__(self, fb, d):
        self.fb = fb
        self.d = d
        self.h = fb.hir[d]
        self.events = []  # dict(kind="tag"|"rel"|"inc", label, guards, loops, ln)
        self.lets = {}
        for y in hirq.walk(self.h["body"]):
            if y.get("k") == "let" and y.get("init") and y["pat"].get("k") == "bind":
                self.lets[y["pat"].get("lid")] = y["init"]
            # `let x; ... x = e;` (deferred initialisation): the single assignment is the binding
            if y.get("k") == "assign" and hirq.strip(y["l"]).get("k") == "path" and hirq.strip(y["l"]).get("lid") is not None:
                self.lets.setdefault(hirq.strip(y["l"])["lid"], y["r"])

    def derives(self, n, lid, depth=0):
        """Does expression n derive from local lid (through let-bound locals, format!, to_string)?"""
        for l in _local_lids(n):
            if l == lid:
                return True
            if l in self.lets and depth < 4 and self.derives(self.lets[l], lid, depth + 1):
                return True
        return False

    def find_counter(self):
        """The integer local whose value ends up in r:id strings / relationship ids."""
        cands = {}
        for x in hirq.walk(self.h["body"]):
            if x.get("k") == "assignop" and x.get("op") in ("+=",):
                l = hirq.strip(x["l"])
                if l.get("k") in ("path",) and "lid" in l:
                    cands[l["lid"]] = cands.get(l["lid"], 0) + 1
                if l.get("k") == "un" and hirq.strip(l["e"]).get("lid") is not None:
                    cands[hirq.strip(l["e"])["lid"]] = cands.get(hirq.strip(l["e"])["lid"], 0) + 1
        best = None
        for lid in cands:
            uses = 0
            for x in hirq.walk(self.h["body"]):
                if x.get("k") == "tup" and len(x.get("es", [])) == 2 and hirq.lit_value(x["es"][0]) in ("r:id", "Id") and self.derives(x["es"][1], lid):
                    uses += 1
                if x.get("k") == "call" and x.get("def", "").endswith("write_relationship") and len(x.get("args", [])) > 1 and self.derives(x["args"][1], lid):
                    uses += 1
                if x.get("k") in ("call", "mcall") and any(lid in _local_lids(a) for a in x.get("args", [])) and (x.get("def") or "").startswith("structs::") and (x.get("def") or "").split("::")[-1].startswith("write_to"):
                    uses += 1
            if uses and (best is None or uses > best[1]):
                best = (lid, uses)
        return best[0] if best else None

    def run(self, counter=None):
        counter = counter if counter is not None else self.find_counter()
        self.counter = counter
        if counter is None:
            return self
        global LETS
        saved = LETS
        LETS = {y["pat"].get("lid"): y["init"] for y in hirq.walk(self.h["body"]) if y.get("k") == "let" and y.get("init") and y["pat"].get("k") == "bind" and not y["pat"].get("mut")}
        try:
            self._walk(self.h["body"], [], [])
        finally:
            LETS = saved
        return self

    def _walk(self, n, guards, loops):
        if not isinstance(n, dict):
            return
        k = n.get("k")
        if k == "if":
            g = guard_names(n["cond"])
            self._walk(n["cond"], guards, loops)
            self._walk(n["then"], guards + [g], loops)
            if n.get("else"):
                self._walk(n["else"], guards + [(g[0], not g[1])], loops)
            return
        if k == "match" and n.get("src") == "ForLoopDesugar":
            for x, it, var, body in hirq.for_loops(n):
                if x is n:
                    src = [it] + [LETS[y["lid"]] for y in hirq.walk(it) if y.get("k") == "path" and y.get("lid") in LETS]
                    # the collection accessor(s) the iterable is built from - calls made inside the closures of adaptors
                    # (filter / map predicates) are not sources
                    inner = {id(c) for s_ in src for cl_ in hirq.walk(s_) if cl_.get("k") == "closure" for c in hirq.calls(cl_.get("body", {}))}
                    names = frozenset((c.get("def") or "").split("::")[-1] for s_ in src for c in hirq.calls(s_) if (c.get("def") or "").startswith("structs::") and id(c) not in inner) or frozenset(
                        "param:" + str(self.h["params"][i].get("name")) for i, p_ in enumerate(self.h["params"]) if p_.get("lid") in _local_lids(it)
                    )
                    # `.filter(|x| cond)` on the way to the loop guards the body like `if cond { .. }` inside it
                    g2 = list(guards)
                    for s_ in src:
                        for c in hirq.walk(s_):
                            if c.get("k") == "mcall" and c.get("name") == "filter" and c.get("args"):
                                cl = hirq.strip(c["args"][0])
                                if cl.get("k") == "closure":
                                    cb_ = hirq.strip(cl["body"])
                                    while cb_.get("k") == "block" and not cb_.get("stmts") and cb_.get("expr"):
                                        cb_ = hirq.strip(cb_["expr"])
                                    gn = guard_names(cb_)
                                    if gn[0]:
                                        g2.append(gn)
                    self._walk(body, g2, loops + [names])
                    return
        if k == "match" and n.get("src") == "Normal":
            self._walk(n["scrut"], guards, loops)
            g = guard_names(n["scrut"])
            for a in n["arms"]:
                pat = a["pat"]
                lab = (pat.get("def") or "").split("::")[-1] if pat.get("k") in ("ts", "struct", "path") else "_"
                self._walk(a["body"], guards + [(g[0] | frozenset(["=" + lab]), False)], loops)
            return
        if k == "tup" and len(n.get("es", [])) == 2 and hirq.lit_value(n["es"][0]) == "r:id" and self.derives(n["es"][1], self.counter):
            self.events.append({"kind": "tag", "label": None, "guards": list(guards), "loops": list(loops), "ln": n.get("ln")})
        if k == "call" and n.get("def", "").split("::")[-1] == "write_start_tag" and len(n.get("args", [])) >= 2:
            tag = hirq.lit_value(n["args"][1])
            t1 = hirq.strip(n["args"][1])
            if tag is None and t1.get("k") == "path" and not t1.get("def") and t1.get("lid") is not None:
                tag = ("lid", t1["lid"])  # the element name is a parameter of a helper: resolved at the call site
            # first walk the arguments (vec! of tuples) so that inline tuples are seen, then label pending tag events
            for c in hirq.children(n):
                self._walk(c, guards, loops)
            for e in self.events:
                if e["kind"] == "tag" and e["label"] is None:
                    e["label"] = tag
            return
        if k == "call" and n.get("def", "").endswith("write_relationship") and len(n.get("args", [])) >= 3 and self.derives(n["args"][1], self.counter):
            ty = hirq.strip(n["args"][2])
            label = ty.get("def") if ty.get("k") == "path" else hirq.lit_value(ty)
            if ty.get("k") == "path" and not ty.get("def") and ty.get("lid") is not None:
                label = ("lid", ty["lid"])  # a parameter of a helper: resolved at the call site
            tgt = None
            if len(n["args"]) > 3:
                tgt = n["args"][3]
            self.events.append({"kind": "rel", "label": label, "guards": list(guards), "loops": list(loops), "ln": n.get("ln"), "target": tgt})
        delegated = (n.get("def") or "").startswith("structs::") and (n.get("def") or "").split("::")[-1].startswith("write_to")
        # ... or a private helper of the writer module that is handed the counter itself (`&mut r_id`): it writes with the
        # current id and advances it
        helper = k == "call" and (n.get("def") or "").startswith("writer::") and not (n.get("def") or "").endswith("write_relationship") and (n.get("def") or "") in self.fb.hir
        if k in ("call", "mcall") and (delegated or helper) and any(self.counter in _local_lids(a) for a in n.get("args", [])):
            # delegated: the callee writes r:id attributes with the counter it is given
            cd = n["def"]
            if cd in self.fb.hir:
                ch = self.fb.hir[cd]
                idx = [i for i, a in enumerate(n["args"]) if self.counter in _local_lids(a)][0]
                off = 1 if n.get("k") == "mcall" else 0
                plid = ch["params"][idx + off].get("lid")
                sub = Seq(self.fb, cd).run(counter=plid)
                plids = [p_.get("lid") for p_ in ch["params"]]
                for e in sub.events:
                    e2 = dict(e)
                    if isinstance(e2.get("label"), tuple) and e2["label"][0] == "lid" and e2["label"][1] in plids:
                        ai = plids.index(e2["label"][1]) - off
                        if 0 <= ai < len(n["args"]):
                            ty_ = hirq.strip(n["args"][ai])
                            e2["label"] = ty_.get("def") if ty_.get("k") == "path" and ty_.get("def") else (hirq.lit_value(ty_) if ty_.get("k") == "lit" else e2["label"])
                    e2["guards"] = list(guards) + e["guards"]
                    e2["loops"] = list(loops) + e["loops"]
                    e2["via"] = cd
                    self.events.append(e2)
                return
        if k == "assignop" and n.get("op") == "+=":
            l = hirq.strip(n["l"])
            lid = l.get("lid") if l.get("k") == "path" else (hirq.strip(l["e"]).get("lid") if l.get("k") == "un" else None)
            if lid == self.counter:
                self.events.append({"kind": "inc", "label": hirq.lit_value(n["r"]), "guards": list(guards), "loops": list(loops), "ln": n.get("ln")})
        if k == "block":
            # a statement `if c { ...; continue / break / return }` guards everything after it in the block with !c
            g2 = list(guards)
            for st in list(n.get("stmts", [])) + ([n["expr"]] if n.get("expr") else []):
                self._walk(st, g2, loops)
                x = hirq.strip(st.get("e", st)) if isinstance(st, dict) else None
                if isinstance(x, dict) and x.get("k") == "if" and not x.get("else") and _diverges(x["then"]):
                    gn = guard_names(x["cond"])
                    g2 = g2 + [(gn[0], not gn[1])]
            return
        for c in hirq.children(n):
            self._walk(c, guards, loops)

    def allocations(self):
        """Id-consuming events paired with whether an increment follows before the next consuming event (same guard nest)."""
        out = []
        ev = self.events
        for i, e in enumerate(ev):
            if e["kind"] not in ("tag", "rel"):
                continue
            followed = False
            for f in ev[i + 1:]:
                if f["kind"] == "inc":
                    # the increment belongs to this allocation only if it happens under exactly the same conditions
                    # and in the same loop: an id must advance when, and only when, one was consumed
                    followed = f["guards"] == e["guards"] and f["loops"] == e["loops"]
                    break
                if f["kind"] in ("tag", "rel"):
                    break
            out.append((e, followed))
        return out
