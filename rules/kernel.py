"""E5 — kernel normal forms.

A small loop-free function is turned, from its MIR, into a finite list of guarded leaves
    (path condition: [(atom term, expected value)], return term, heap writes)
by walking its CFG once per path with a symbolic environment (references are transparent,
getters/setters and scalar helpers are inlined up to a depth bound, everything else stays an
opaque term). The normal form is then compared with a reference normal form over the finite
set of order types of its integer inputs: each order type is represented by one small
valuation, used only to resolve the comparison atoms of the two *extracted formulas*.
Loops, recursion or > MAX_PATHS paths make a function ineligible ("not a kernel")."""

MAX_PATHS = 6000
MAX_BLOCKS = 120
MAX_DEPTH = 5


class NotKernel(Exception):
    pass


class Panic(Exception):
    pass


INT_TYPES = {"u8", "u16", "u32", "u64", "usize", "i8", "i16", "i32", "i64", "isize", "bool", "char"}

CMP = {"lt": "Lt", "le": "Le", "gt": "Gt", "ge": "Ge", "eq": "Eq", "ne": "Ne"}


def peel(ty):
    while ty.startswith("&"):
        ty = ty[1:]
        if ty.startswith("mut "):
            ty = ty[4:]
    return ty


class Interp:
    def __init__(self, facts, inline=None, opaque=None):
        self.facts = facts
        self.inline = inline or (lambda fn: True)
        self.opaque_calls = set()
        self.inlined = set()
        self.npaths = 0
        self.events = []  # (callee, arg terms, path conditions) of opaque / modelled calls

    # -- places -------------------------------------------------------------------------
    def addr(self, env, heap, place):
        l = place["l"]
        t = env.get(l, ("local", l))
        for e in place.get("pr", []):
            if e == "*":
                t = heap.get(t, t) if isinstance(t, tuple) and t[0] in ("field",) and False else t
            elif isinstance(e, dict) and "f" in e:
                t = self.proj_field(heap, t, e["f"])
            elif isinstance(e, dict) and "dc" in e:
                t = ("downcast", t, e["dc"])
            elif isinstance(e, dict) and "idx" in e:
                t = ("index", t, env.get(e["idx"], ("local", e["idx"])))
            elif isinstance(e, dict) and "ci" in e:
                t = ("index", t, ("const", e["ci"]))
            else:
                t = ("proj", t, str(e))
        return t

    def proj_field(self, heap, t, f):
        cur = heap.get(t, t)
        if cur[0] == "tuple" and f.isdigit() and int(f) < len(cur[1]):
            return cur[1][int(f)]
        if cur[0] == "downcast" and isinstance(cur[1], tuple):
            inner = heap.get(cur[1], cur[1])
            if inner[0] == "variant" and inner[1] == cur[2] and f.isdigit() and int(f) < len(inner[2]):
                return inner[2][int(f)]
        if cur[0] == "closure" and f.isdigit() and int(f) < len(cur[2]):
            return cur[2][int(f)]
        if cur[0] == "adt":
            for k_, v_ in cur[2]:
                if k_ == f:
                    return v_
        return ("field", t, f)

    def read(self, env, heap, place):
        a = self.addr(env, heap, place)
        return heap.get(a, a)

    def operand(self, env, heap, op, body):
        if "p" in op:
            return self.read(env, heap, op["p"])
        if "promoted" in op:
            pv = body.get("promoted", [])
            i = op["promoted"]
            if i < len(pv) and len(pv[i]) == 1:
                c = pv[i][0]
                if "i" in c:
                    return ("const", c["i"])
                if "s" in c:
                    return ("const", c["s"])
            return ("unknown", "promoted%d" % i)
        if "i" in op:
            return ("const", op["i"])
        if "bytes" in op:
            return ("const", "hex:" + "".join("%02x" % x for x in op["bytes"]))
        if "s" in op:
            return ("const", op["s"])
        if "cfn" in op:
            return ("fn", op["cfn"])
        return ("const", op.get("c"))

    # -- running ------------------------------------------------------------------------
    def run(self, fn, args, heap=None, conds=None, depth=0, subst=None):
        """Yield (ret term, heap dict, conds list) for every path of fn."""
        body = self.facts.mir.get(fn)
        if body is None:
            raise NotKernel("no MIR for %s" % fn)
        if len(body["blocks"]) > (MAX_BLOCKS if depth > 0 else 600):
            raise NotKernel("%s has %d blocks" % (fn, len(body["blocks"])))
        env0 = {}
        for i, a in enumerate(args):
            env0[i + 1] = a
        old = getattr(self, "subst", {})
        self.subst = subst or {}
        try:
            yield from self._walk(body, 0, env0, dict(heap or {}), list(conds or []), frozenset(), depth, fn)
        finally:
            self.subst = old

    def _walk(self, body, bi, env, heap, conds, visited, depth, fn):
        while True:
            if bi in visited:
                # a loop: only a `for` over a literal array (its iterator is modelled, every test is concrete) is unrolled
                nrev = sum(1 for x in visited if isinstance(x, tuple))
                if not any(isinstance(k_, tuple) and k_ and k_[0] == "arriter" for k_ in heap) or nrev > 300:
                    raise NotKernel("loop in %s" % fn)
                visited = visited | {("rev", nrev + 1)}
            visited = visited | {bi}
            bl = body["blocks"][bi]
            for s in bl["s"]:
                if s["k"] == "assign":
                    v = self.rvalue(env, heap, s["rv"], body)
                    self.write(env, heap, s["lhs"], v)
                elif s["k"] == "setdiscr":
                    pass
            t = bl["t"]
            k = t["k"]
            if k == "goto":
                bi = t["t"]
                continue
            if k == "return":
                self.npaths += 1
                if self.npaths > MAX_PATHS:
                    raise NotKernel("too many paths")
                yield (env.get(0, ("const", "()")), heap, conds)
                return
            if k in ("drop",):
                bi = t["t"]
                continue
            if k == "assert":
                if t.get("msg") in ("MisalignedPointerDereference", "NullPointerDereference"):
                    bi = t["t"]
                    continue  # debug-build pointer checks: not part of the program's logic
                c = self.operand(env, heap, t["cond"], body)
                conds = conds + [(c, 1 if t["expected"] else 0)]
                bi = t["t"]
                continue
            if k == "switch":
                c = self.operand(env, heap, t["op"], body)
                if c[0] == "const" and isinstance(c[1], int):
                    tgt = t["otherwise"]
                    for val, b in t["targets"]:
                        if val == c[1]:
                            tgt = b
                    bi = tgt
                    continue
                vals = [v for v, _ in t["targets"]]
                fc = freeze(c)
                known = None
                for pc, pe in conds:
                    if freeze(pc) == fc:
                        known = pe
                if known is not None:
                    if isinstance(known, tuple) and known and known[0] == "not":
                        cands = [b for v, b in t["targets"] if v not in known[1]]
                        if set(vals) <= set(known[1]):
                            bi = t["otherwise"]
                            continue
                    else:
                        tgt = t["otherwise"]
                        for v, b in t["targets"]:
                            if v == known:
                                tgt = b
                        bi = tgt
                        continue
                for val, b in t["targets"]:
                    yield from self._walk(body, b, dict(env), dict(heap), conds + [(c, val)], visited, depth, fn)
                yield from self._walk(body, t["otherwise"], dict(env), dict(heap), conds + [(c, ("not", tuple(vals)))], visited, depth, fn)
                return
            if k == "call":
                if "t" not in t:
                    # diverging call (panic): path ends without result
                    return
                outs = list(self.call(env, heap, conds, t, body, depth))
                if len(outs) == 1:
                    ret, heap, conds = outs[0]
                    self.write(env, heap, t["dest"], ret)
                    bi = t["t"]
                    continue
                for ret, h2, c2 in outs:
                    e2 = dict(env)
                    h2 = dict(h2)
                    self.write(e2, h2, t["dest"], ret)
                    yield from self._walk(body, t["t"], e2, h2, c2, visited, depth, fn)
                return
            if k in ("unreachable", "resume", "abort"):
                return
            raise NotKernel("terminator %s in %s" % (k, fn))

    def write(self, env, heap, lhs, v):
        if not lhs.get("pr"):
            env[lhs["l"]] = v
        else:
            a = self.addr(env, heap, lhs)
            heap[a] = v

    def rvalue(self, env, heap, rv, body):
        k = rv["k"]
        if k == "use":
            return self.operand(env, heap, rv["op"], body)
        if k == "ref":
            p = rv["place"]
            if not p.get("pr"):
                return env.get(p["l"], ("local", p["l"]))
            return self.addr(env, heap, p)
        if k == "bin":
            a = self.operand(env, heap, rv["a"], body)
            b = self.operand(env, heap, rv["b"], body)
            op = rv["op"]
            if op.endswith("WithOverflow"):
                base = op[: -len("WithOverflow")]
                return ("tuple", (("op", base, a, b), ("op", base + "Ovf", a, b)))
            return ("op", op, a, b)
        if k == "un":
            a = self.operand(env, heap, rv["a"], body)
            if rv["op"] == "Not":
                return ("not", a)
            return ("un", rv["op"], a)
        if k == "cast":
            return self.operand(env, heap, rv["op"], body)
        if k == "discr":
            a = self.addr(env, heap, rv["place"])
            cur = heap.get(a, a)
            if cur[0] == "variant":
                return ("const", cur[3])
            return ("discr", a)
        if k == "agg":
            ops = tuple(self.operand(env, heap, o, body) for o in rv["ops"])
            if rv.get("ak") == "tuple":
                return ("tuple", ops)
            if rv.get("ak") == "adt":
                adt = self.facts.adts.get(rv["adt"])
                if adt and adt["kind"] == "enum":
                    names = [v["name"] for v in adt["variants"]]
                    return ("variant", rv["variant"], ops, names.index(rv["variant"]))
                if rv["adt"] in ("std::option::Option", "std::result::Result"):
                    return ("variant", rv["variant"], ops, {"None": 0, "Some": 1, "Ok": 0, "Err": 1}[rv["variant"]])
                return ("adt", rv["adt"], tuple(zip(rv.get("fields", []), ops)))
            if rv.get("ak") == "closure":
                return ("closure", rv["closure"], ops)
            return ("agg", rv.get("ak"), ops)
        return ("unknown", k)

    # -- calls ---------------------------------------------------------------------------
    def call(self, env, heap, conds, t, body, depth):
        fn = t.get("fn", "?")
        orig = t.get("orig", fn)
        args = [self.operand(env, heap, a, body) for a in t["args"]]
        name = orig.split("::")[-1]
        argtys = []
        for a in t["args"]:
            if "p" in a:
                argtys.append(peel(self.facts.ty(body["locals"][a["p"]["l"]]["t"])))
            else:
                argtys.append(peel(self.facts.ty(a.get("t", 0))) if "t" in a else "?")
        if orig.startswith("std::cmp::PartialOrd::") or orig.startswith("std::cmp::PartialEq::"):
            if name in CMP and len(args) == 2:
                yield (("op", CMP[name], args[0], args[1]), heap, conds)
                return
        if orig in ("std::ops::Add::add", "std::ops::Sub::sub") and all(a in INT_TYPES for a in argtys):
            yield (("op", "Add" if name == "add" else "Sub", args[0], args[1]), heap, conds)
            return
        if fn.endswith("impl std::iter::IntoIterator for [T; N]>::into_iter") and len(args) == 1:
            cur = heap.get(args[0], args[0])
            if isinstance(cur, tuple) and cur and cur[0] == "agg" and cur[1] == "array":
                # a `for` over a literal array: the iterator is an opaque token, its position lives in the (per-path) heap
                self._arrn = getattr(self, "_arrn", 0) + 1
                heap = dict(heap)
                heap[("arriter", self._arrn)] = (tuple(cur[2]), 0)
                yield (("arrtoken", self._arrn), heap, conds)
                return
        if fn.startswith("<std::array::IntoIter<T, N> as std::iter::Iterator>::next") and len(args) == 1:
            it_ = args[0]
            while isinstance(it_, tuple) and it_ and it_[0] in ("ref", "deref") and len(it_) > 1 and isinstance(it_[1], tuple):
                it_ = it_[1]
            if isinstance(it_, tuple) and it_ and it_[0] == "arrtoken" and ("arriter", it_[1]) in heap:
                elems, idx = heap[("arriter", it_[1])]
                heap = dict(heap)
                if idx < len(elems):
                    heap[("arriter", it_[1])] = (elems, idx + 1)
                    yield (("variant", "Some", (elems[idx],), 1), heap, conds)
                else:
                    yield (("variant", "None", (), 0), heap, conds)
                return
        if fn.startswith("std::option::Option::<T>::"):
            if name == "is_some":
                yield (("op", "Eq", self._discr(heap, args[0]), ("const", 1)), heap, conds)
                return
            if name == "is_none":
                yield (("op", "Eq", self._discr(heap, args[0]), ("const", 0)), heap, conds)
                return
            if name in ("unwrap", "expect"):
                cur = heap.get(args[0], args[0])
                if cur[0] == "variant":
                    yield (cur[2][0] if cur[2] else ("const", None), heap, conds)
                else:
                    yield (("field", ("downcast", args[0], "Some"), "0"), heap, conds + [(("discr", args[0]), 1)])
                return
            if name in ("as_ref", "as_mut", "as_deref", "as_deref_mut"):
                yield (args[0], heap, conds)
                return
            if name in ("map_or", "is_some_and", "is_none_or") and len(args) >= 2 and isinstance(args[-1], tuple) and args[-1] and args[-1][0] == "closure" and args[-1][1] in self.facts.mir and depth < MAX_DEPTH:
                # Option::map_or(default, f): None -> default, Some(x) -> f(x)   (is_some_and: default false; is_none_or: default true)
                o = args[0]
                clos = args[-1]
                default = args[1] if name == "map_or" else ("const", 1 if name == "is_none_or" else 0)
                cur = heap.get(o, o)
                self.inlined.add(clos[1])
                if cur[0] == "variant":
                    if cur[1] == "None":
                        yield (default, heap, conds)
                    else:
                        yield from self.run(clos[1], [clos, cur[2][0]], heap, conds, depth + 1)
                    return
                yield (default, heap, conds + [(("discr", o), 0)])
                payload = ("field", ("downcast", o, "Some"), "0")
                yield from self.run(clos[1], [clos, payload], heap, conds + [(("discr", o), 1)], depth + 1)
                return
        if orig in ("std::ops::Deref::deref", "std::ops::DerefMut::deref_mut", "std::clone::Clone::clone", "std::convert::AsRef::as_ref", "std::borrow::Borrow::borrow") and len(args) == 1:
            yield (args[0], heap, conds)
            return
        if name == "new_uninit" and fn.startswith("std::boxed::Box::"):
            self._boxn = getattr(self, "_boxn", 0) + 1
            yield (("box", self._boxn), heap, conds)
            return
        if name == "box_assume_init_into_vec_unsafe" and args:
            for k_, v_ in heap.items():
                if isinstance(v_, tuple) and v_ and v_[0] == "agg" and v_[1] == "array" and _contains(k_, args[0]):
                    yield (("vec", v_[2]), heap, conds)
                    return
        if orig == "std::convert::Into::into" and len(t.get("targs", [])) == 2 and len(args) == 1:
            T, U = (self.subst_ty(self.facts.ty(i)) for i in t["targs"])
            cand = "<%s as std::convert::From<%s>>::from" % (U, T)
            if cand in self.facts.mir and depth < MAX_DEPTH:
                self.inlined.add(cand)
                yield from self.run(cand, args, heap, conds, depth + 1)
                return
        m = self.model(fn, orig, name, args, heap, conds, depth)
        if m is not None:
            yield from m
            return
        if fn in self.facts.mir and depth < MAX_DEPTH and self.inline(fn) and fn not in getattr(self, "_failed", set()):
            b2 = self.facts.mir[fn]
            if len(b2["blocks"]) <= MAX_BLOCKS:
                sub = {}
                gen = b2.get("generics", [])
                tas = [self.subst_ty(self.facts.ty(i)) for i in t.get("targs", [])]
                if gen and len(gen) == len(tas):
                    sub = dict(zip(gen, tas))
                nev = len(self.events)
                np0 = self.npaths
                try:
                    outs = list(self.run(fn, args, heap, conds, depth + 1, subst=sub))
                except NotKernel:
                    # callee is not a kernel (loops, too big): keep it opaque
                    del self.events[nev:]
                    self.npaths = np0
                    if not hasattr(self, "_failed"):
                        self._failed = set()
                    self._failed.add(fn)
                    outs = None
                if outs is not None:
                    self.inlined.add(fn)
                    n0 = len(conds)
                    if len(outs) > 1 and all(h == heap for _, h, _ in outs):
                        cases = tuple((tuple((freeze(c), e) for c, e in cs[n0:]), freeze(r)) for r, _, cs in outs)
                        yield (("case", cases), heap, conds)
                        return
                    yield from outs
                    return
        self.opaque_calls.add(fn)
        self.events.append((fn, tuple(args), tuple(conds)))
        if getattr(self, "impure", None) and self.impure(fn):
            yield (("call", fn, tuple(args), ("site", body.get("def"), t.get("ln"), len([e for e in self.events if e[0] == fn]))), heap, conds)
            return
        yield (("call", fn, tuple(args)), heap, conds)

    def model(self, fn, orig, name, args, heap, conds, depth):
        """Hook for subclasses: return an iterable of outcomes or None."""
        return None

    def subst_ty(self, ty):
        return getattr(self, "subst", {}).get(ty, ty)

    def _discr(self, heap, a):
        cur = heap.get(a, a)
        if cur[0] == "variant":
            return ("const", cur[3])
        return ("discr", a)


def _contains(t, x):
    if t == x:
        return True
    if isinstance(t, tuple):
        return any(_contains(y, x) for y in t)
    return False


# ---- evaluation of extracted formulas ----------------------------------------------------------
def freeze(t):
    if isinstance(t, list):
        return tuple(freeze(x) for x in t)
    if isinstance(t, tuple):
        return tuple(freeze(x) for x in t)
    if isinstance(t, dict):
        return tuple(sorted((k, freeze(v)) for k, v in t.items()))
    return t


def inputs_of(t, acc):
    """Collect input terms (args, fields, discriminants, opaque calls, locals) of a term."""
    if not isinstance(t, (tuple, list)) or not t:
        return
    h = t[0]
    if h in ("arg", "field", "discr", "call", "local", "unknown", "downcast", "index"):
        acc.add(freeze(t))
        if h == "discr":
            return
        return
    if h == "const" or h == "fn":
        return
    if h == "case":
        for cs, r in t[1]:
            for c, e in cs:
                inputs_of(c, acc)
            inputs_of(r, acc)
        return
    for x in t[1:]:
        if isinstance(x, (tuple, list)):
            if x and isinstance(x[0], str):
                inputs_of(x, acc)
            else:
                for y in x:
                    inputs_of(y, acc)
        elif isinstance(x, dict):
            for y in x.values():
                inputs_of(y, acc)


def ev(t, val):
    h = t[0]
    if h == "const":
        return t[1]
    if h in ("arg", "field", "discr", "call", "local", "unknown", "downcast", "index"):
        k = freeze(t)
        if k in val:
            return val[k]
        raise KeyError(k)
    if h == "not":
        if isinstance(t[1], tuple) and t[1] and isinstance(t[1][0], str):
            return 0 if ev(t[1], val) else 1
        return t
    if h == "op":
        op = t[1]
        a = ev(t[2], val)
        b = ev(t[3], val)
        if op == "Add":
            return a + b
        if op == "Sub":
            if a - b < 0:
                raise Panic("subtract with overflow")
            return a - b
        if op == "AddOvf":
            return 0
        if op == "SubOvf":
            return 1 if a - b < 0 else 0
        if op == "Mul":
            return a * b
        if op == "MulOvf":
            return 0
        if op == "Lt":
            return int(a < b)
        if op == "Le":
            return int(a <= b)
        if op == "Gt":
            return int(a > b)
        if op == "Ge":
            return int(a >= b)
        if op == "Eq":
            return int(a == b)
        if op == "Ne":
            return int(a != b)
        if op == "BitAnd":
            return a & b
        if op == "BitOr":
            return a | b
        raise NotKernel("operator %s" % op)
    if h == "case":
        for cs, r in t[1]:
            ok = True
            for c, e in cs:
                if not cond_holds(c, e, val):
                    ok = False
                    break
            if ok:
                return ev(r, val)
        raise Panic("no case (assertion fails)")
    if h == "tuple":
        return tuple(ev(x, val) for x in t[1])
    if h == "variant":
        return ("variant", t[1], tuple(ev(x, val) for x in t[2]))
    raise NotKernel("term %r" % (h,))


def cond_holds(c, expected, val):
    v = ev(c, val)
    if isinstance(expected, tuple) and expected and expected[0] == "not":
        return v not in expected[1]
    if isinstance(v, bool):
        v = int(v)
    return v == expected


def select(paths, val):
    """The unique path whose conditions hold under val; Panic if an assert fails or none matches."""
    hit = None
    for ret, heap, conds in paths:
        ok = True
        for c, e in conds:
            try:
                if not cond_holds(c, e, val):
                    ok = False
                    break
            except Panic:
                ok = False
                break
        if ok:
            hit = (ret, heap, conds)
            break
    if hit is None:
        raise Panic("no path (assertion fails)")
    return hit


def show(t):
    if not isinstance(t, (tuple, list)):
        return str(t)
    h = t[0]
    if h == "const":
        return repr(t[1]) if isinstance(t[1], str) else str(t[1])
    if h == "arg":
        return "arg%d" % t[1]
    if h == "field":
        return "%s.%s" % (show(t[1]), t[2])
    if h == "downcast":
        return "%s as %s" % (show(t[1]), t[2])
    if h == "discr":
        return "discr(%s)" % show(t[1])
    if h == "op":
        sym = {"Add": "+", "Sub": "-", "Lt": "<", "Le": "<=", "Gt": ">", "Ge": ">=", "Eq": "==", "Ne": "!="}.get(t[1], t[1])
        return "(%s %s %s)" % (show(t[2]), sym, show(t[3]))
    if h == "not":
        return "!%s" % show(t[1]) if isinstance(t[1], tuple) and t[1] and isinstance(t[1][0], str) else "not%s" % (t[1],)
    if h == "call":
        return "%s%s(%s)" % (t[1].split("::")[-1], ("#%d" % t[3][3]) if len(t) > 3 else "", ", ".join(show(a) for a in t[2]))
    if h == "vec":
        return "vec![%s]" % ", ".join(show(a) for a in t[1])
    if h == "case":
        return "case{%s}" % "; ".join("%s -> %s" % (" & ".join("%s=%s" % (show(c), e) for c, e in cs) or "else", show(r)) for cs, r in t[1])
    if h == "tuple":
        return "(%s)" % ", ".join(show(a) for a in t[1])
    if h == "variant":
        return "%s(%s)" % (t[1], ", ".join(show(a) for a in t[2]))
    if h == "local":
        return "_%d" % t[1]
    return str(t)
