"""Obligations, verdicts, known findings, evidence and VIOLATION lines."""
import hashlib
import json
import os
import time

VERIF = os.path.dirname(os.path.dirname(os.path.abspath(__file__)))
KNOWN = os.path.join(VERIF, "known_findings.json")


def nf_hash(obj):
    """Hash of an extracted normal form (used in keys of semantic rules)."""
    return hashlib.sha256(json.dumps(obj, sort_keys=True).encode()).hexdigest()[:10]


class Check:
    def __init__(self, pid, tier, facts):
        self.pid = pid
        self.tier = tier
        self.facts = facts
        self.t0 = time.time()
        self.rules = {}  # rid -> {"text", "floor", "obs": [...]}
        self.order = []
        self.assumptions = []
        self.notes = []
        self.fns = set()
        self.call_sites = 0
        self.extra = {}

    # ---- declaring rules and recording obligations --------------------------------
    def rule(self, rid, text, floor=0):
        if rid not in self.rules:
            self.rules[rid] = {"text": text, "floor": floor, "obs": []}
            self.order.append(rid)
        return rid

    def ob(self, rid, instance, ok, where="", detail="", key=None, nontrivial=True, extra=None):
        """Record one obligation. `instance` is a stable descriptor (no line numbers).
        `key` (defaults to instance) is what known findings are matched on."""
        r = self.rules[rid]
        full = "%s:%s:%s" % (self.pid, rid, key if key is not None else instance)
        r["obs"].append(
            {
                "instance": instance,
                "ok": bool(ok),
                "where": where,
                "detail": detail,
                "key": full,
                "nontrivial": nontrivial,
                "extra": extra,
            }
        )
        return ok

    def touch(self, *defs):
        for d in defs:
            self.fns.add(d)

    def assume(self, text):
        if text not in self.assumptions:
            self.assumptions.append(text)

    def note(self, text):
        self.notes.append(text)

    def merge(self, other, prefix):
        """Adopt the rules/obligations of another Check (same property, another build configuration)."""
        for rid in other.order:
            r = other.rules[rid]
            nr = {"text": "[%s] %s" % (prefix, r["text"]), "floor": r["floor"], "obs": []}
            for o in r["obs"]:
                o2 = dict(o)
                o2["key"] = o["key"]  # same key: a finding known in one configuration is the same finding in the other
                o2["instance"] = "%s:%s" % (prefix, o["instance"])
                nr["obs"].append(o2)
            self.rules[prefix + ":" + rid] = nr
            self.order.append(prefix + ":" + rid)
        self.fns |= other.fns

    # ---- finishing --------------------------------------------------------------------
    def finish(self):
        known = []
        if os.path.exists(KNOWN):
            with open(KNOWN) as f:
                known = json.load(f)
        known_keys = {k["key"]: k for k in known if k.get("status") == "known" and k.get("property") == self.pid}
        violations = []
        known_hit = []
        total = discharged = nontrivial = 0
        distinct = set()
        samples = []
        per_rule = []
        for rid in self.order:
            r = self.rules[rid]
            n = len(r["obs"])
            okc = sum(1 for o in r["obs"] if o["ok"])
            per_rule.append({"rule": rid, "instances": n, "floor": r["floor"], "discharged": okc, "text": r["text"]})
            if n < r["floor"]:
                violations.append(
                    {
                        "key": "%s:%s:floor" % (self.pid, rid),
                        "rule": rid,
                        "where": "",
                        "instance": "floor",
                        "detail": "rule matched %d instance(s), fewer than the %d confirmed by hand on the reference tree: an anchor of the rule is missing (fail closed)"
                        % (n, r["floor"]),
                    }
                )
            for o in r["obs"]:
                total += 1
                if o["nontrivial"] and o["key"] not in distinct:
                    distinct.add(o["key"])
                    nontrivial += 1
                if o["ok"]:
                    discharged += 1
                else:
                    v = dict(o)
                    v["rule"] = rid
                    if o["key"] in known_keys:
                        known_hit.append((known_keys[o["key"]], v))
                    else:
                        violations.append(v)
            for o in r["obs"][:3]:
                samples.append(
                    {
                        "rule": rid,
                        "instance": o["instance"],
                        "where": o["where"],
                        "verdict": "discharged" if o["ok"] else "violated",
                        "detail": o["detail"][:300],
                    }
                )
        # stale known findings (information only)
        hit_keys = {k["key"] for k, _ in known_hit}
        stale = [k for k in known_keys if k not in hit_keys]
        # print
        for rid in self.order:
            r = self.rules[rid]
            n = len(r["obs"])
            okc = sum(1 for o in r["obs"] if o["ok"])
            print("  rule %-8s instances=%-4d discharged=%-4d floor=%-3d %s" % (rid, n, okc, r["floor"], r["text"][:110]))
        for k, v in known_hit:
            print("KNOWN-FINDING: property=%s %s [%s]" % (self.pid, k.get("what", ""), v["key"]))
        for k in stale:
            print("STALE-FINDING: property=%s key=%s is listed but was not re-derived on this tree" % (self.pid, k))
        rep_dir = os.path.join(VERIF, "reports", self.pid)
        os.makedirs(rep_dir, exist_ok=True)
        for v in violations:
            name = hashlib.sha256(v["key"].encode()).hexdigest()[:12] + ".json"
            path = os.path.join(rep_dir, name)
            with open(path, "w") as f:
                json.dump(
                    {
                        "property": self.pid,
                        "key": v["key"],
                        "rule": v["rule"],
                        "rule_text": self.rules[v["rule"]]["text"],
                        "where": v.get("where", ""),
                        "instance": v.get("instance", ""),
                        "detail": v.get("detail", ""),
                        "extra": v.get("extra"),
                        "facts": self.facts.key if self.facts else None,
                    },
                    f,
                    indent=1,
                )
            print("  violated: %s  at %s\n     %s" % (v["key"], v.get("where", ""), v.get("detail", "")))
            print("VIOLATION property=%s replay=%s" % (self.pid, path))
        wall = time.time() - self.t0
        ev = {
            "property_id": self.pid,
            "tier": self.tier,
            "seed": int(os.environ.get("VERIF_SEED", "0") or 0),
            "level": "other",
            "coverage": {
                "explanation": "Static analysis of the type-checked program (rustc HIR+MIR facts of /repo's current tree, resolved callees). "
                "Each rule instance is an obligation over the code's structure, decided for all inputs; the behavioural "
                "property itself (round trip / equivalence / interoperability) is NOT decided. See DESIGN.md section 4, "
                + self.pid
                + ".",
                "evaluations": total,
                "distinct_nontrivial": nontrivial,
                "rule": "one obligation per rule instance found in the fact base; non-trivial = its verdict needed a resolved call, "
                "a dataflow edge or a CFG/path query (counted per distinct key); rules: "
                + "; ".join("%s: %s" % (rid, self.rules[rid]["text"]) for rid in self.order),
                "samples": samples[:40],
                "obligations": total,
                "discharged": discharged,
                "functions_analysed": len(self.fns),
                "per_rule": per_rule,
                "known_findings_matched": [k["key"] for k, _ in known_hit],
                "stale_findings": stale,
                "facts_hash": self.facts.key if self.facts else None,
                "mir_bodies_in_fact_base": len(self.facts.mir) if self.facts else 0,
                "notes": self.notes,
                "extra": self.extra,
                "exhaustive": True,
            },
            "assumptions": self.assumptions
            + [
                "rustc's HIR/MIR of the crate is what is built (no build script, no unsafe, default features)",
                "dependencies (std collections, quick-xml, zip, cfb, getrandom, encoding_rs) behave as documented",
            ],
            "wall_s": round(wall, 3),
            "violations": len(violations),
        }
        if not os.environ.get("UMYA_KEEP_EVIDENCE"):
            os.makedirs(os.path.join(VERIF, "evidence"), exist_ok=True)
            with open(os.path.join(VERIF, "evidence", self.pid + ".json"), "w") as f:
                json.dump(ev, f, indent=1)
        print(
            "%s tier=%s obligations=%d discharged=%d known=%d violations=%d wall=%.1fs"
            % (self.pid, self.tier, total, discharged, len(known_hit), len(violations), wall)
        )
        return 1 if violations else 0
