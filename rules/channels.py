"""Escape/unescape channels shared by C03.a, C04.a and C02.g (E4 taint + E6 who-may-call)."""
from e2 import direct_fields
from mirq import Flow

ATTR = "quick_xml::events::attributes::Attribute"
# functions that may look at Attribute.value without decoding it, with the reason
VALUE_EXCEPTIONS = {
    "structs::vml::text_box::TextBox::set_attributes": "re-serialises the inner XML of a VML text box verbatim (attribute values are copied back escaped as they were)",
    "structs::cell::Cell::set_attributes": "compares the raw value of xml:space with the constant `preserve`; nothing is stored",
}


def rule_attr_unescape(chk, fb, rid_prefix):
    rid = chk.rule(
        rid_prefix,
        "attribute channel: the bytes of an XML attribute value become a model string only through the central extractor, which applies exactly one unescape; no caller unescapes its result again; nobody else reads Attribute.value (listed exceptions aside)",
        floor=4,
    )
    accessors = []
    for d, b in sorted(fb.mir.items()):
        if "value" in direct_fields(b, ATTR):
            accessors.append(d)
    central = [d for d in accessors if fb.mir[d]["kind"] == "Fn" and d.startswith("reader::driver::")]
    for d in accessors:
        parent = d.split("::{closure")[0]
        b = fb.mir[d]
        if d in central:
            fl = Flow(fb, b)
            un = [a for a in fl.atoms(0) if a[0] == "call" and ("escape::unescape" in a[1] or a[1].endswith("unescape_value") or a[1].endswith("decode_and_unescape_value"))]
            n_un = len({a[2] for a in un})
            # ... and nothing else happens to the value on the way: no trimming, no case folding, no slicing
            edits = sorted({t.get("fn", "").split("::")[-1] for bd in [d] + [c for c in fb.mir if c.startswith(d + "::{closure")] for _, t in fb.calls_in(fb.mir[bd])
                            if t.get("fn", "").split("::")[-1] in ("trim", "trim_start", "trim_end", "trim_matches", "to_lowercase", "to_uppercase", "to_ascii_lowercase", "to_ascii_uppercase", "truncate", "split_at", "strip_prefix", "strip_suffix", "replace")})
            chk.ob(rid, "central-verbatim:%s" % d, not edits, where=fb.loc(d), detail="the extractor hands the decoded value on as it is: %s" % ("yes" if not edits else "NO - it also applies %s (format codes, names and texts with significant blanks or case are altered on load)" % edits))
            chk.touch(d)
            chk.ob(rid, "central:%s" % d, n_un == 1, where=fb.loc(d), detail="the returned string derives from %d unescape call(s) on the attribute value (needs exactly 1): entities such as &amp; are %s" % (n_un, "decoded once" if n_un == 1 else ("NOT decoded" if n_un == 0 else "decoded more than once")))
        elif parent in VALUE_EXCEPTIONS:
            chk.ob(rid, "accessor:%s" % parent, True, where=fb.loc(d), detail="listed exception: %s" % VALUE_EXCEPTIONS[parent], nontrivial=False)
        else:
            chk.ob(rid, "accessor:%s" % parent, False, where=fb.loc(d), detail="reads Attribute.value directly, bypassing the central extractor (and its unescape)")
    if not central:
        chk.ob(rid, "central", False, detail="no central attribute extractor found in reader::driver")
        return
    # callers of the extractor chain must not unescape again
    chain = set(central)
    for c in central:
        for caller, _ in fb.callers.get(c, []):
            if caller.startswith("reader::driver::"):
                chain.add(caller.split("::{closure")[0])
    n = 0
    for d, b in sorted(fb.mir.items()):
        if d.startswith("reader::driver::"):
            continue
        fl = None
        for bi, t in fb.calls_in(b):
            f = t.get("fn", "")
            if "quick_xml::escape::unescape" in f and t["args"]:
                fl = fl or Flow(fb, b)
                at = fl.atoms(t["args"][0])
                if any(a[0] == "call" and a[1] in chain for a in at):
                    chk.touch(d)
                    chk.ob(rid, "double:%s" % d, False, where="%s:%s" % (b["file"], t["ln"]), detail="unescapes a value that the extractor already unescaped: `&amp;amp;` would lose two levels, a literal `&lt;` in the data is mangled")
                    n += 1
    chk.ob(rid, "no-double-unescape", n == 0, where="src/reader", detail="call sites that unescape the extractor's result again: %d" % n)


def rule_attr_escape(chk, fb, rid_prefix):
    rid = chk.rule(
        rid_prefix,
        "attribute values are escaped on write: element start tags are built only by the driver (BytesStart + extend_attributes, which escapes); nobody else constructs BytesStart or pushes raw attributes",
        floor=1,
    )
    n = 0
    sites = 0
    for d, b in sorted(fb.mir.items()):
        for bi, t in fb.calls_in(b):
            f = t.get("fn", "")
            if "events::BytesStart" in f and f.split("::")[-1] in ("new", "from_content", "push_attribute", "with_attributes", "extend_attributes", "from"):
                if d.startswith("writer::driver::"):
                    sites += 1
                    continue
                if f.split("::")[-1] in ("push_attribute",) or (f.split("::")[-1] in ("new", "from_content") and not d.startswith("reader::")):
                    chk.ob(rid, "outside-driver:%s" % d, False, where="%s:%s" % (b["file"], t["ln"]), detail="constructs a start tag / pushes an attribute outside the writer driver via %s" % f.split("::")[-1])
                    n += 1
    drv = "writer::driver::write_start_tag"
    ok = drv in fb.mir and any(t.get("fn", "").endswith("BytesStart::<'a>::extend_attributes") for _, t in fb.calls_in(fb.mir[drv]))
    chk.touch(drv)
    chk.ob(rid, "driver", ok and n == 0, where=fb.loc(drv), detail="write_start_tag adds attributes with extend_attributes (escaping): %s; start tags built elsewhere: %d; callers of write_start_tag: %d" % (ok, n, len(fb.callers.get(drv, []))))


def rule_legal_chars(chk, fb, rid):
    """XML 1.0 cannot carry U+0000-U+0008, U+000B, U+000C, U+000E-U+001F (nor as character references); SpreadsheetML
    carries them as _xHHHH_ (ST_Xstring). quick-xml's escapers only treat < > & ' ": a sink that hands model text to them
    without a legalising step of the crate's own writes such characters raw and the part is not well-formed."""
    r = chk.rule(
        rid,
        "only legal XML characters reach a part: every driver function that writes model text (text nodes, attribute values) passes it through a step of the crate that handles control characters (is_control / _xHHHH_ encoding) - quick-xml's escapers do not",
        floor=3,
    )
    sinks = [d for d, b in sorted(fb.mir.items()) if d.startswith("writer::driver::") and b["kind"] == "Fn" and d.split("::")[-1] in ("write_start_tag", "write_text_node", "write_text_node_conversion")]
    for d in sinks:
        group = [d] + [x for x in fb.reachable_from([d]) if x in fb.mir and x != d]
        legal = False
        for g in group:
            b = fb.mir[g]
            for _, t in fb.calls_in(b):
                if t.get("fn", "").split("::")[-1] in ("is_control", "is_ascii_control"):
                    legal = True
            for bl in b["blocks"]:
                for st in bl["s"]:
                    if st["k"] == "assign" and isinstance(st["rv"].get("op", {}).get("s"), str) and st["rv"]["op"]["s"].startswith("_x"):
                        legal = True
        chk.touch(d)
        chk.ob(r, "%s" % d.split("::")[-1], legal, where=fb.loc(d), detail="text passes a character-legalising step: %s" % legal)
