"""Symbolic model of std iterator chains over the cell store's collections (used by C10, C02.f, C20):
an iterator is ("iter", source address, element term); adaptors transform the element term by applying
the closure's extracted normal form. Nothing is executed."""
from kernel import Interp, NotKernel, freeze

SOURCES = {
    "std::collections::BTreeSet::<T, A>::iter": "set",
    "std::collections::BTreeSet::<T, A>::range": "range",
    "std::collections::HashMap::<K, V, S, A>::keys": "keys",
    "std::collections::HashMap::<K, V, S, A>::values": "values",
    "std::collections::HashMap::<K, V, S, A>::values_mut": "values",
    "std::collections::HashMap::<K, V, S, A>::iter": "pairs",
    "std::collections::HashMap::<K, V, S, A>::iter_mut": "pairs",
    "std::collections::HashMap::<K, V, S, A>::into_iter": "pairs",
}
PASS = {"copied", "cloned", "rev", "peekable", "into_iter", "by_ref", "fuse", "skip", "take", "step_by"}


class IterInterp(Interp):
    def apply(self, clos, elem, heap, conds, depth):
        """Result term of calling closure term `clos` on `elem` (single value; several paths -> case term)."""
        if not (isinstance(clos, tuple) and clos and clos[0] == "closure"):
            if isinstance(clos, tuple) and clos and clos[0] == "fn" and clos[1] in self.facts.mir:
                outs = list(self.run(clos[1], [elem], heap, conds, depth + 1))
            elif isinstance(clos, tuple) and clos and clos[0] == "fn" and (clos[1].endswith("::as_ref") or clos[1].endswith("::as_mut")):
                return elem
            else:
                return ("call", "apply", (clos, elem))
        else:
            outs = list(self.run(clos[1], [clos, elem], heap, conds, depth + 1))
        if len(outs) == 1:
            return outs[0][0]
        n0 = len(conds)
        return ("case", tuple((tuple((freeze(c), e) for c, e in cs[n0:]), freeze(r)) for r, _, cs in outs))

    def model(self, fn, orig, name, args, heap, conds, depth):
        if fn in SOURCES:
            kind = SOURCES[fn]
            src = args[0]
            elem = ("elem", src, kind if kind in ("keys", "values", "pairs") else "set")
            self.events.append((fn, tuple(args), tuple(conds)))
            if kind == "range" and len(args) > 1:
                r = args[1]
                # RangeInclusive::new((a,b),(c,d)) with a == c pins the major component
                if r[0] == "call" and r[1].endswith("RangeInclusive::<Idx>::new"):
                    lo, hi = r[2]
                    if lo[0] == "tuple" and hi[0] == "tuple" and freeze(lo[1][0]) == freeze(hi[1][0]):
                        elem = ("tuple", (lo[1][0], ("field", elem, "1")))
            return [(("iter", src, elem), heap, conds)]
        if orig.startswith("std::iter::Iterator::") or orig.startswith("std::iter::IntoIterator::") or orig.startswith("std::iter::DoubleEndedIterator::"):
            it = args[0] if args else None
            if isinstance(it, tuple) and it and it[0] == "iter":
                if name in PASS:
                    return [(it, heap, conds)]
                if name == "map":
                    return [(("iter", it[1], self.apply(args[1], it[2], heap, conds, depth)), heap, conds)]
                if name in ("filter", "inspect", "take_while", "skip_while"):
                    self.apply(args[1], it[2], heap, conds, depth)
                    return [(it, heap, conds)]
                if name in ("last", "next", "min", "max", "next_back"):
                    return [(("optelem", it), heap, conds)]
                if name in ("collect",):
                    return [(("collected", it), heap, conds)]
                if name in ("find_map", "for_each", "any", "all", "find"):
                    r = self.apply(args[1], it[2], heap, conds, depth)
                    return [(("call", name, (it, r)), heap, conds)]
            if isinstance(it, tuple) and it and it[0] == "optelem" and name in PASS:
                return [(it, heap, conds)]
        if fn.startswith("std::option::Option::<T>::") or fn.startswith("std::option::Option::<&T>::"):
            x = args[0] if args else None
            if isinstance(x, tuple) and x and x[0] == "optelem":
                if name in ("copied", "cloned", "as_ref"):
                    return [(x, heap, conds)]
                if name in ("unwrap", "unwrap_or", "unwrap_or_default", "expect"):
                    return [(x[1][2], heap, conds)]
                if name == "map":
                    return [(("optelem", ("iter", x[1][1], self.apply(args[1], x[1][2], heap, conds, depth))), heap, conds)]
                if name in ("map_or", "map_or_else") and len(args) == 3:
                    # value for a non-empty collection (the default only covers the empty one)
                    return [(self.apply(args[2], x[1][2], heap, conds, depth), heap, conds)]
        if fn in ("std::collections::HashMap::<K, V, S, A>::get", "std::collections::HashMap::<K, V, S, A>::get_mut", "std::collections::HashMap::<K, V, S, A>::contains_key"):
            self.events.append((fn, tuple(args), tuple(conds)))
            return [(("mapval", args[0], args[1]), heap, conds)]
        if fn in ("std::option::Option::<T>::unwrap", "std::option::Option::<T>::map", "std::option::Option::<T>::unwrap_or") and args and isinstance(args[0], tuple) and args[0][0] == "mapval":
            if name == "map":
                return [(("call", "Option::map", (args[0], args[1])), heap, conds)]
            return [(args[0], heap, conds)]
        return None
