"""CFG utilities over a MIR body (E3): successors, dominators, post-dominators, control
dependence, reachability, cycles. Unwind/cleanup edges are excluded unless asked for:
a panic is not a "path to the exit" for the must-pass-through rules."""


def succs(body, bi, unwind=False):
    t = body["blocks"][bi]["t"]
    k = t["k"]
    out = []
    if k == "goto":
        out = [t["t"]]
    elif k == "switch":
        out = [b for _, b in t["targets"]] + [t["otherwise"]]
    elif k in ("call", "drop", "assert"):
        if "t" in t:
            out = [t["t"]]
        if unwind and "unwind" in t:
            out.append(t["unwind"])
    return out


class CFG:
    def __init__(self, body, unwind=False):
        self.body = body
        self.n = len(body["blocks"])
        self.succ = [list(dict.fromkeys(succs(body, i, unwind))) for i in range(self.n)]
        self.pred = [[] for _ in range(self.n)]
        for i, ss in enumerate(self.succ):
            for s in ss:
                self.pred[s].append(i)
        self.reach = self._reach(0)
        self.exits = [
            i for i in range(self.n) if i in self.reach and body["blocks"][i]["t"]["k"] == "return"
        ]
        self._dom = None
        self._pdom = None

    def _reach(self, start, succ=None, avoid=()):
        succ = succ or self.succ
        seen = set()
        work = [start]
        while work:
            b = work.pop()
            if b in seen or b in avoid:
                continue
            seen.add(b)
            work.extend(succ[b])
        return seen

    def reachable(self, a, avoid=()):
        """Blocks reachable from a (inclusive) without entering any block in avoid."""
        return self._reach(a, avoid=set(avoid))

    def reachable_strict(self, a, avoid=()):
        """Blocks reachable from a by at least one edge, not passing through avoid."""
        seen = set()
        work = list(self.succ[a])
        avoid = set(avoid)
        while work:
            b = work.pop()
            if b in seen or b in avoid:
                continue
            seen.add(b)
            work.extend(self.succ[b])
        return seen

    # ---- dominators (iterative) ---------------------------------------------------
    def _dominators(self, entry_set, succ, pred, universe):
        dom = {b: set(universe) for b in universe}
        for e in entry_set:
            dom[e] = {e}
        changed = True
        order = sorted(universe)
        while changed:
            changed = False
            for b in order:
                if b in entry_set:
                    continue
                ps = [p for p in pred[b] if p in universe]
                if ps:
                    new = set.intersection(*(dom[p] for p in ps)) | {b}
                else:
                    new = {b}
                if new != dom[b]:
                    dom[b] = new
                    changed = True
        return dom

    @property
    def dom(self):
        if self._dom is None:
            self._dom = self._dominators({0}, self.succ, self.pred, self.reach)
        return self._dom

    @property
    def pdom(self):
        """Post-dominators w.r.t. normal returns (virtual exit joins all return blocks).
        Blocks that cannot reach a return (diverging) post-dominate nothing of interest."""
        if self._pdom is None:
            can_exit = set()
            work = list(self.exits)
            while work:
                b = work.pop()
                if b in can_exit:
                    continue
                can_exit.add(b)
                work.extend(p for p in self.pred[b] if p in self.reach)
            uni = can_exit
            # reverse graph restricted to uni
            rsucc = {b: [p for p in self.pred[b] if p in uni] for b in uni}
            rpred = {b: [s for s in self.succ[b] if s in uni] for b in uni}
            EXIT = -1
            uni2 = set(uni) | {EXIT}
            rsucc[EXIT] = list(self.exits)
            rpred[EXIT] = []
            for e in self.exits:
                rpred[e] = rpred[e] + [EXIT]
            dom = {b: set(uni2) for b in uni2}
            dom[EXIT] = {EXIT}
            changed = True
            while changed:
                changed = False
                for b in sorted(uni):
                    ps = rpred[b]
                    new = (set.intersection(*(dom[p] for p in ps)) if ps else set()) | {b}
                    if new != dom[b]:
                        dom[b] = new
                        changed = True
            self._pdom = dom
            self.can_exit = can_exit
        return self._pdom

    def dominates(self, a, b):
        return b in self.dom and a in self.dom[b]

    def postdominates(self, a, b):
        return b in self.pdom and a in self.pdom[b]

    def control_deps(self, b):
        """Blocks (switch terminators) on which block b is directly control-dependent:
        branch blocks x with a successor s such that b post-dominates s (or b == s) and b does
        not strictly post-dominate x."""
        out = []
        pd = self.pdom
        for x in self.reach:
            if len(self.succ[x]) < 2:
                continue
            if b != x and b in pd.get(x, ()):  # b post-dominates x: not dependent
                continue
            for s in self.succ[x]:
                if s == b or (s in pd and b in pd[s]):
                    out.append((x, s))
                    break
        return out

    def control_deps_transitive(self, b):
        seen = {}
        work = [b]
        while work:
            c = work.pop()
            for x, s in self.control_deps(c):
                if x not in seen:
                    seen[x] = s
                    work.append(x)
        return seen

    def every_path_to_exit_passes(self, start, through):
        """True iff every path from `start` to a normal return passes a block in `through`."""
        through = set(through)
        if start in through:
            return True
        r = self.reachable(start, avoid=through)
        return not any(e in r for e in self.exits)

    def every_path_from_entry_to(self, target, through):
        """True iff every path entry -> target passes a block in `through` first."""
        through = set(through) - {target}
        if 0 in through:
            return True
        r = self.reachable(0, avoid=through)
        return target not in r

    def back_edges(self):
        return [(a, b) for a in self.reach for b in self.succ[a] if self.dominates(b, a)]

    def natural_loop(self, tail, head):
        body = {head}
        work = [tail]
        while work:
            b = work.pop()
            if b in body:
                continue
            body.add(b)
            work.extend(self.pred[b])
        return body
