"""C08 — references keep their target cells across row/column insert and remove. Clauses a–f."""
import itertools

from cfg import CFG
from mirq import Flow
import hirq
from props import C07, C09

T_2SHEET = "traits::adjustment_coordinate_with_2sheet::AdjustmentCoordinateWith2Sheet"


def STOP(fn):
    return C09.STOP(fn)


def helper_roles(fb):
    """Scalar helper kernels (fn(&u32,&u32,&u32)) -> role, derived from the AdjustmentValue impls that call them."""
    roles = {}
    for adt, meths in C07.impl_methods(fb, C07.T_VALUE).items():
        for role, d in meths.items():
            b = fb.mir.get(d)
            if not b:
                continue
            for _, t in fb.calls_in(b):
                f = t.get("fn", "")
                cb = fb.mir.get(f)
                if cb and cb["kind"] == "Fn" and cb["argc"] == 3 and all(fb.ty(cb["locals"][i]["t"]) == "&u32" for i in (1, 2, 3)):
                    roles.setdefault(f, set()).add(role)
    return {f: next(iter(r)) for f, r in roles.items() if len(r) == 1}


def formula_kernels(fb):
    """pub fns of helper::formula over (&mut [FormulaToken], &u32 x4, &str, &str, bool) -> role (insert/remove)."""
    hr = helper_roles(fb)
    out = {}
    for d, b in fb.mir.items():
        if b["kind"] != "Fn" or b["argc"] != 8:
            continue
        tys = [fb.ty(b["locals"][i]["t"]) for i in range(1, 9)]
        if "FormulaToken" not in tys[0] or tys[1:5] != ["&u32"] * 4 or tys[5:7] != ["&str", "&str"] or tys[7] != "bool":
            continue
        # the scalar kernel is applied in the function itself, in one of its closures, or in the private function it hands
        # each piece of a reference to
        bodies = [b] + [fb.mir[c] for c in fb.mir if c.startswith(d + "::{closure")]
        for bb in list(bodies):
            for _, t in fb.calls_in(bb):
                f = t.get("fn", "")
                if f in fb.mir and f.startswith("helper::formula::") and fb.mir[f].get("vis") != "pub" and f not in hr:
                    bodies.append(fb.mir[f])
        roles = {hr[t["fn"]] for bb in bodies for _, t in fb.calls_in(bb) if t.get("fn") in hr}
        if len(roles) == 1:
            out[d] = next(iter(roles))
    return out, hr


def rule_kernels(chk, fb):
    kernels, hr = formula_kernels(fb)
    ra = chk.rule(
        "C08.a",
        "absolute references move too: in the insert/remove formula kernels the per-axis shift is not control-dependent on the $ flags (fields 2/3 of the parsed coordinate)",
        floor=4,
    )
    rc = chk.rule(
        "C08.c",
        "scalar shift wiring: the column component (field 0) is shifted by the scalar kernel of the function's own role with (root_col, offset_col), the row component (field 1) with (root_row, offset_row), and the result is what is rendered",
        floor=4,
    )
    rw = chk.rule(
        "C08.c.axis",
        "whole-row/column references: the shift of one axis is control-dependent only on the presence of that axis' own component (a reference like A:A or 1:1 must still be shifted on the axis it has)",
        floor=4,
    )
    rd = chk.rule(
        "C08.d",
        "deleted targets become #REF!: the remove kernel has a path, guarded by a band predicate, on which the token is given an error value",
        floor=1,
    )
    for d, role in sorted(kernels.items()):
        eff, amap = C09.effective_kernel(fb, d)
        b = fb.mir[eff]
        chk.touch(d)
        chk.touch(eff)
        cfg = CFG(b)
        fl = Flow(fb, b)
        sites = [(bi, t) for bi, t in fl.calls(lambda t: t.get("fn") in hr)]
        for bi, t in sites:
            a0 = fl.atoms(t["args"][0], stop_calls=STOP)
            comp = sorted(x[2] for x in a0 if x[0] == "field" and x[1] == "tuple" and x[2] in "0123")
            axis = {"0": "col", "1": "row"}.get(comp[0]) if len(comp) == 1 else None
            if axis is None:
                chk.ob(rc, "%s:shift(?)" % d, False, where="%s:%s" % (b["file"], t["ln"]), detail="scalar kernel applied to a value deriving from components %s of the parsed coordinate" % comp)
                continue
            want = (amap.get(2), amap.get(3)) if axis == "col" else (amap.get(4), amap.get(5))
            got = tuple(sorted(C09.arg_ids(eff, fl.atoms(t["args"][i], through_calls=False)) - ({1, 2} if "{closure" in eff else set()))[0:1] for i in (1, 2))
            got = tuple(g[0] if g else None for g in got)
            role_ok = hr[t["fn"]] == role
            chk.ob(rc, "%s:shift(%s)" % (d, axis), got == want and role_ok, where="%s:%s" % (b["file"], t["ln"]),
                   detail="%s component shifted by %s with parameters %s (expected %s, role %s)" % (axis, t["fn"].split("::")[-1], got, want, role))
            # control dependence
            lock_fields = set()
            present = set()
            for x in cfg.control_deps_transitive(bi):
                sw = b["blocks"][x]["t"]
                at = fl.atoms(sw["op"], stop_calls=STOP)
                fields = {y[2] for y in at if y[0] == "field" and y[1] == "tuple"}
                if not any(y[0] == "call" and STOP(y[1]) for y in at):
                    continue
                issome = [y for y in at if y[0] == "call" and y[1] in ("std::option::Option::<T>::is_some", "std::option::Option::<T>::is_none")]
                if issome:
                    for y in issome:
                        ct = b["blocks"][y[2]]["t"]
                        ca = fl.atoms(ct["args"][0], through_calls=False)
                        present |= {z[2] for z in ca if z[0] == "field" and z[1] == "tuple"}
                else:
                    lock_fields |= fields & {"2", "3"}
            chk.ob(ra, "%s:shift(%s):not-guarded-by-lock" % (d, axis), not lock_fields, where="%s:%s" % (b["file"], t["ln"]),
                   detail="shift of the %s component is control-dependent on $-flag field(s) %s" % (axis, sorted(lock_fields) or "none"))
            own = {"col": "0", "row": "1"}[axis]
            chk.ob(rw, "%s:shift(%s):presence" % (d, axis), present <= {own}, where="%s:%s" % (b["file"], t["ln"]),
                   detail="shift of the %s component requires presence of component(s) %s (own component is %s)" % (axis, sorted(present), own),
                   key="%s:shift(%s):presence:%s" % (d, axis, ",".join(sorted(present))))
        C09.one_sided(chk, fb, eff, "C08.c", name=d)
        if role == "remove":
            # an error value assigned under a band predicate
            band = [f for f, r in hr.items() if r == "band"]
            found = False
            for bi, t in fl.calls():
                if t.get("fn", "").endswith("set_token_sub_type") or t.get("fn", "").endswith("set_value"):
                    at = set()
                    for a in t["args"][1:]:
                        at |= fl.atoms(a)
                    is_err = any(x[0] == "const" and isinstance(x[1], str) and x[1].startswith("#REF") for x in at) or any(
                        x[0] == "const" and "Error" in str(x[1]) for x in at
                    )
                    if not is_err:
                        continue
                    for x in cfg.control_deps_transitive(bi):
                        sw = b["blocks"][x]["t"]
                        sat = fl.atoms(sw["op"])
                        if any(y[0] == "call" and (y[1] in band or "is_remove" in y[1]) for y in sat):
                            found = True
            chk.ob(rd, "%s:ref-error-path" % d, found, where=fb.loc(d),
                   detail="a path that turns a reference whose target lies in the removed band into an error value %s" % ("exists" if found else "does NOT exist: such a reference silently designates another cell"))


# ------------------------------------------------------------------------------------------------
# C08.b sheet-matching predicate (boolean normal form from HIR)
def bool_formula(n, atom):
    n = hirq.strip(n)
    k = n.get("k")
    if k == "bin" and n["op"] in ("||", "&&"):
        return (n["op"], bool_formula(n["l"], atom), bool_formula(n["r"], atom))
    if k == "un" and n.get("op") == "Not":
        return ("!", bool_formula(n["e"], atom))
    return ("atom", atom(n))


def eval_formula(f, val):
    if f[0] == "||":
        return eval_formula(f[1], val) or eval_formula(f[2], val)
    if f[0] == "&&":
        return eval_formula(f[1], val) and eval_formula(f[2], val)
    if f[0] == "!":
        return not eval_formula(f[1], val)
    return val[f[1]]


def atoms_of(f, acc):
    if f[0] == "atom":
        acc.add(f[1])
    else:
        for x in f[1:]:
            atoms_of(x, acc)


def rule_sheet_match(chk, fb):
    rid = chk.rule(
        "C08.b",
        "sheet-matching predicate: the guard of the shift in both formula kernels, as a boolean function of its atoms (ignore flag, ref=='' , edited==own, ref==edited), has the reference truth table ignore OR (ref=='' AND edited==own) OR ref==edited",
        floor=2,
    )
    kernels, hr = formula_kernels(fb)
    K = C07.K
    for d, role in sorted(kernels.items()):
        h = fb.hir.get(d)
        if not h:
            continue
        params = h["params"]
        strs = [p["lid"] for p in params if p.get("k") == "bind" and fb.ty(p["t"]) == "&str"]
        bools = [p["lid"] for p in params if p.get("k") == "bind" and fb.ty(p["t"]) == "bool"]
        if len(strs) != 2 or len(bools) != 1:
            chk.ob(rid, "%s:guard" % d, False, where=fb.loc(d), detail="unexpected parameter shape")
            continue
        edited, own = strs
        # the reference's sheet qualifier: first binding of the tuple destructured from split_address
        ref = None
        for x in hirq.walk(h["body"]):
            if x.get("k") == "let" and x["pat"].get("k") == "tuple" and x.get("init"):
                init = hirq.strip(x["init"])
                if init.get("k") == "call" and init.get("def", "").endswith("split_address"):
                    ref = x["pat"]["subs"][0].get("lid")
        role_of = {edited: "edited", own: "own", ref: "ref", bools[0]: "ignore"}

        def operand(n):
            n = hirq.strip(n)
            if n.get("k") == "path" and n.get("lid") in role_of:
                return role_of[n["lid"]]
            if n.get("k") == "lit" and n.get("lt") == "str":
                return "lit:%s" % n["v"]
            return "?"

        def atom(n):
            if n.get("k") == "path" and n.get("lid") in role_of:
                return role_of[n["lid"]]
            if n.get("k") == "bin" and n["op"] in ("==", "!="):
                ops = tuple(sorted((operand(n["l"]), operand(n["r"]))))
                return ("ne:" if n["op"] == "!=" else "eq:") + "|".join(ops)
            return "?unknown"

        guard = None
        for x in hirq.walk(h["body"]):
            if x.get("k") == "if":
                f = bool_formula(x["cond"], atom)
                acc = set()
                atoms_of(f, acc)
                if "ignore" in acc:
                    guard = (x, f, acc)
                    break
        if guard is None:
            chk.ob(rid, "%s:guard" % d, False, where=fb.loc(d), detail="no `if` whose condition mentions the ignore flag")
            continue
        x, f, acc = guard
        names = {"ignore": "ignore", "eq:lit:|ref": "ref_empty", "eq:edited|own": "edited_is_own", "eq:edited|ref": "ref_is_edited"}
        unknown = sorted(a for a in acc if a not in names)
        rows = 0
        bad = []
        if not unknown:
            for vals in itertools.product((False, True), repeat=4):
                v = dict(zip(("ignore", "ref_empty", "edited_is_own", "ref_is_edited"), vals))
                got = bool(eval_formula(f, {a: v[names[a]] for a in acc}))
                want = K.sheet_match(v["ignore"], v["ref_empty"], v["edited_is_own"], v["ref_is_edited"])
                rows += 1
                if got != want:
                    bad.append(v)
        chk.touch(d)
        chk.ob(rid, "%s:guard" % d, not unknown and not bad, where="%s:%s" % (h["file"], x["ln"]),
               detail="atoms %s; %d rows compared; %s" % (sorted(acc), rows, "unknown atoms %s" % unknown if unknown else ("mismatch at %s" % bad[:2] if bad else "equal")))
    # Address: own-sheet test guards the range shift
    r2 = chk.rule(
        "C08.b.addr",
        "sheet-qualified addresses (defined names, chart series): the range of an Address is shifted / tested only under `address.sheet_name == edited sheet`",
        floor=3,
    )
    for adt, meths in C07.impl_methods(fb, C07.T_SHEET).items():
        if not adt.endswith("::Address"):
            continue
        for role, d in sorted(meths.items()):
            b = fb.mir[d]
            cfg = CFG(b)
            fl = Flow(fb, b)
            chk.touch(d)
            for bi, t in fl.calls(lambda t: C07.method_role(t.get("orig", t.get("fn", "")).split("::")[-1]) == role):
                ok = False
                for x in cfg.control_deps_transitive(bi):
                    at = fl.atoms(b["blocks"][x]["t"]["op"])
                    if ("arg", 2) in at and any(y[0] == "field" and y[2] == "sheet_name" for y in at) and any(y[0] == "call" and y[1].split("::")[-1] in ("eq", "ne") for y in at):
                        ok = True
                chk.ob(r2, "Address:%s" % role, ok, where="%s:%s" % (b["file"], t["ln"]), detail="range %s guarded by sheet-name equality: %s" % (role, ok))


def rule_chain(chk, fb):
    rid = chk.rule(
        "C08.b.chain",
        "edited/own sheet names keep their slots along Worksheet -> Cells -> Cell -> CellValue -> CellFormula -> kernel: own = the sheet's title, edited = the sheet_name argument; the kernel receives (edited, own) in its (worksheet_name, self_worksheet_name) parameters",
        floor=8,
    )
    kernels, hr = formula_kernels(fb)
    two = C07.impl_methods(fb, T_2SHEET)
    # Worksheet entry: calls into with_2sheet
    for adt, meths in C07.impl_methods(fb, C07.T_SHEET).items():
        if not adt.endswith("::Worksheet"):
            continue
        for role, d in sorted(meths.items()):
            b = fb.mir[d]
            fl = Flow(fb, b)
            for bi, t in fl.calls(lambda t: "with_2sheet" in t.get("fn", "")):
                a_own = fl.atoms(t["args"][1])
                a_ed = fl.atoms(t["args"][2], through_calls=False)
                ok = any(x[0] == "field" and x[2] == "title" for x in a_own) and ("arg", 2) in a_ed and not any(x == ("arg", 2) for x in fl.atoms(t["args"][1], through_calls=False))
                chk.touch(d)
                chk.ob(rid, "Worksheet.%s:entry" % role, ok, where="%s:%s" % (b["file"], t["ln"]), detail="own-sheet slot derives from self.title and edited-sheet slot from the sheet_name parameter: %s" % ok)
    from mirq import closure_captures, parent_args

    for adt, meths in sorted(two.items()):
        for role, d in sorted(meths.items()):
            caps = closure_captures(fb, d)
            n = 0
            for bd in C07.bodies_with_closures(fb, d):
                b = fb.mir[bd]
                fl = Flow(fb, b)
                for bi, t in fl.calls():
                    f = t.get("fn", "")
                    if "with_2sheet" in f and len(t["args"]) == 7:
                        got = [parent_args(fb, d, bd, fl, t["args"][i], caps) for i in (1, 2)]
                        ok = got == [[2], [3]]
                        chk.ob(rid, "%s.%s:pass#%d" % (adt.split("::")[-1], role, n), ok, where="%s:%s" % (b["file"], t["ln"]), detail="(own, edited) passed on from parameters %s, expected [[2],[3]]" % got)
                        n += 1
                    elif f in kernels:
                        got = [parent_args(fb, d, bd, fl, t["args"][i], caps) for i in (5, 6)]
                        ok = got == [[3], [2]] and kernels[f] == role
                        chk.ob(rid, "%s.%s:kernel#%d" % (adt.split("::")[-1], role, n), ok, where="%s:%s" % (b["file"], t["ln"]),
                               detail="kernel %s (role %s) receives (worksheet_name, self_worksheet_name) from parameters %s, expected [[3],[2]]" % (f.split("::")[-1], kernels[f], got))
                        n += 1
            chk.touch(d)


def rule_guard_sources(chk, fb):
    rid = chk.rule(
        "C08.c.guard",
        "the shift of a reference depends on the reference text only through the coordinate parser: no other predicate over the text of the reference guards the scalar shift in the formula kernels",
        floor=4,
    )
    kernels, hr = formula_kernels(fb)
    for d, role in sorted(kernels.items()):
        eff, amap = C09.effective_kernel(fb, d)
        b = fb.mir[eff]
        cfg = CFG(b)
        fl = Flow(fb, b)
        split = {bi for bi, t in fl.calls(lambda t: t.get("fn", "").endswith("get_split_range"))}
        # in a per-piece helper the text of the reference arrives as the parameter no kernel argument is mapped to
        piece_params = {i for i in range(1, b["argc"] + 1) if eff != d and i not in amap.values() and "str" in fb.ty(b["locals"][i]["t"]).lower()}

        def from_text(aa):
            return any(y[0] == "call" and y[2] in split for y in aa) or any(y[0] == "arg" and y[1] in piece_params for y in aa)

        for n, (bi, t) in enumerate(fl.calls(lambda t: t.get("fn") in hr)):
            bad = []
            for x in cfg.control_deps_transitive(bi):
                sw = b["blocks"][x]["t"]
                at = fl.atoms(sw["op"])
                for a in at:
                    if a[0] == "call" and a[1] in fb.mir and not STOP(a[1]) and not a[1].endswith("get_split_range") and not a[1].endswith("split_address"):
                        # a crate predicate: does its argument derive from the reference text (an element of the split list)?
                        ct = b["blocks"][a[2]]["t"]
                        for arg in ct["args"]:
                            aa = fl.atoms(arg)
                            if from_text(aa) and not fb.mir[a[1]].get("self_ty", "").endswith("FormulaToken"):
                                bad.append(a[1].split("::")[-1])
            chk.touch(d)
            chk.ob(rid, "%s:shift#%d" % (d, n), not bad, where="%s:%s" % (b["file"], t["ln"]), detail="text predicates guarding the shift besides the coordinate parser: %s" % (sorted(set(bad)) or "none"))


def rule_parse_wiring(chk, fb):
    """A parsed reference keeps its `$` flags on the component they were written on: the coordinate parser returns
    (column, row, column lock, row lock); a ColumnReference takes components 0 and 2, a RowReference 1 and 3."""
    from mirq import Flow

    r = chk.rule(
        "C08.c.parse",
        "parsed components are wired to their own axis: wherever a result of the coordinate parser is stored into a column (row) reference, the number comes from tuple component 0 (1) and the lock flag from component 2 (3), and from no other component",
        floor=4,
    )
    want = {("ColumnReference", "set_num"): "0", ("ColumnReference", "set_is_lock"): "2", ("RowReference", "set_num"): "1", ("RowReference", "set_is_lock"): "3"}
    for d, b in sorted(fb.mir.items()):
        if not any(C09.is_parser(fb, t.get("fn", "")) for _, t in fb.calls_in(b)):
            continue
        fl = Flow(fb, b)
        n = {}
        for bi, t in fl.calls():
            f = t.get("fn", "")
            parts = f.split("::")
            key = (parts[-2], parts[-1]) if len(parts) >= 2 else None
            if key not in want or len(t["args"]) < 2:
                continue
            at = fl.atoms(t["args"][1])
            if not any(a[0] == "call" and C09.is_parser(fb, a[1]) for a in at):
                continue
            comps = sorted(a[2] for a in at if a[0] == "field" and a[1] == "tuple" and a[2] in ("0", "1", "2", "3"))
            i = n.get(key, 0)
            n[key] = i + 1
            chk.touch(d)
            chk.ob(r, "%s:%s::%s#%d" % (d.split("::", 2)[-1] if d.count("::") > 1 else d, key[0], key[1], i), comps == [want[key]], where="%s:%s" % (b["file"], t["ln"]),
                   detail="%s::%s takes parser component(s) %s (expected %s)" % (key[0], key[1], comps, want[key]))


def rule_render_wiring(chk, fb):
    """Rendering a reference puts each `$` in front of the component it locks."""
    from cfg import CFG
    from mirq import Flow

    r = chk.rule(
        "C08.c.render",
        "lock flags are rendered on their own axis: in the function that renders a coordinate with `$` marks, the mark emitted before the column letters is decided by the column-lock parameter and the mark emitted after them (before the row number) by the row-lock parameter",
        floor=2,
    )
    for d, b in sorted(fb.mir.items()):
        if b["kind"] != "Fn" or fb.ty(b["locals"][0]["t"]) != "std::string::String":
            continue
        bools = [i for i in range(1, b["argc"] + 1) if fb.ty(b["locals"][i]["t"]) in ("&bool", "bool")]
        colcalls = [bi for bi, t in fb.calls_in(b) if t.get("fn", "").endswith("string_from_column_index")]
        if len(bools) != 2 or len(colcalls) != 1:
            continue
        # which bool is the column lock: from a caller that passes ColumnReference::get_is_lock
        col_lock = None
        for c in sorted({x[0] for x in fb.callers.get(d, ())}):
            cb = fb.mir.get(c)
            if not cb:
                continue
            cfl = Flow(fb, cb)
            for _, ct in cfl.calls(lambda t: t.get("fn") == d):
                for i in bools:
                    if i - 1 < len(ct["args"]) and any(a[0] == "call" and a[1].endswith("ColumnReference::get_is_lock") for a in cfl.atoms(ct["args"][i - 1])):
                        col_lock = i
        if col_lock is None:
            named = [i for i in bools if "col" in (b["locals"][i].get("n") or "")]
            col_lock = named[0] if len(named) == 1 else None
        if col_lock is None:
            chk.ob(r, "%s:params" % d, False, where=fb.loc(d), detail="could not tell which flag parameter is the column lock")
            continue
        row_lock = [i for i in bools if i != col_lock][0]
        fl = Flow(fb, b)
        cfg = CFG(b)
        C = colcalls[0]
        # where the letters enter the output: the append whose argument derives from the column call (push style),
        # else the call itself (format! style: arguments are evaluated in output order)
        appends = [bi for bi, t in fl.calls(lambda t: t.get("fn", "").split("::")[-1] in ("push_str", "push", "insert_str", "extend", "write_str")) if len(t["args"]) > 1 and any(a[0] == "call" and a[2] == colcalls[0] for a in fl.atoms(t["args"][1]))]
        if appends:
            C = appends[0]
        chk.touch(d)
        sites = []
        for bi, bl in enumerate(b["blocks"]):
            dollar = any(st["k"] == "assign" and st["rv"]["k"] == "use" and st["rv"]["op"].get("s") == "$" for st in bl["s"])
            t = bl["t"]
            if t["k"] == "call" and t.get("fn", "").split("::")[-1] in ("push", "push_str", "insert", "insert_str") and any(a.get("c") in ("'$'", "$") or a.get("s") == "$" or a.get("i") == 36 for a in t["args"]):
                dollar = True
            if dollar:
                sites.append(bi)
        # a mark may also be produced by a small helper / closure `|lock| if *lock { "$" } else { "" }`: the call is the site,
        # the flag parameter(s) among its arguments decide it
        via_call = {}
        for bi, t in fl.calls():
            cands = [t.get("fn")]
            if t.get("fn", "").startswith("std::ops::Fn") and t["args"]:
                cands += [a[1] for a in fl.atoms(t["args"][0]) if a[0] == "cfn"]
            for c in cands:
                cb = fb.mir.get(c or "")
                if cb and c != d and any(st["k"] == "assign" and st["rv"]["k"] == "use" and st["rv"]["op"].get("s") == "$" for bl2 in cb["blocks"] for st in bl2["s"]):
                    ps = sorted({a[1] for x in t["args"] for a in fl.atoms(x) if a[0] == "arg" and a[1] in bools})
                    via_call[bi] = ps
        sites = sorted(set(sites) | set(via_call))
        seen = {"before": 0, "after": 0}
        for n, bi in enumerate(sites):
            if bi in via_call:
                params = via_call[bi]
                pos = "before" if cfg.dominates(bi, C) and bi != C else ("after" if cfg.dominates(C, bi) else "?")
                want = col_lock if pos == "before" else (row_lock if pos == "after" else None)
                if pos in seen:
                    seen[pos] += 1
                chk.ob(r, "%s:mark-%s-column#%d" % (d, pos, seen.get(pos, 0)), params == [want], where="%s:%s" % (b["file"], b["blocks"][bi]["t"].get("ln")),
                       detail="`$` %s the column letters comes from a helper called with parameter(s) %s; expected the %s-lock parameter %s" % (pos, [b["locals"][p_].get("n") or p_ for p_ in params], "column" if pos == "before" else "row", b["locals"][want].get("n") if want else "?"))
                continue
            deps = [x for x in cfg.control_deps_transitive(bi) if b["blocks"][x]["t"]["k"] == "switch"]
            params = sorted({a[1] for x in deps for a in fl.atoms(b["blocks"][x]["t"]["op"]) if a[0] == "arg"})
            pos = "before" if all(cfg.dominates(x, C) for x in deps) and deps else ("after" if all(cfg.dominates(C, x) for x in deps) and deps else "?")
            want = col_lock if pos == "before" else (row_lock if pos == "after" else None)
            if pos in seen:
                seen[pos] += 1
            chk.ob(r, "%s:mark-%s-column#%d" % (d, pos, seen.get(pos, 0)), params == [want], where="%s:%s" % (b["file"], b["blocks"][bi]["t"].get("ln")),
                   detail="`$` %s the column letters is decided by parameter(s) %s; expected the %s-lock parameter %s" % (pos, [b["locals"][p_].get("n") or p_ for p_ in params], "column" if pos == "before" else "row", b["locals"][want].get("n") if want else "?"))


def rule_all_kinds(chk, fb):
    """A combination chart has several chart kinds at once: the collector of chart formulas has to visit every kind,
    not the first one present."""
    from cfg import CFG
    from mirq import Flow
    from e2 import _places_of_rv

    r = chk.rule(
        "C08.e.kinds",
        "every chart kind is visited: in the plot area's collector of formulas (the references that follow row/column edits), each chart-kind field is read at a site that does not depend on the presence of another kind",
        floor=10,
    )
    for adt, ad in sorted(fb.adts.items()):
        if ad["kind"] != "struct":
            continue
        kinds = [f["name"] for f in ad["variants"][0]["fields"] if f["ty"].startswith("std::option::Option<") and f["ty"].rstrip(">").endswith("Chart")]
        if len(kinds) < 3:
            continue
        collectors = [d for d, b in fb.mir.items() if b.get("self_ty") == adt and b["kind"] == "AssocFn" and "Formula" in fb.ty(b["locals"][0]["t"]) and "Vec<" in fb.ty(b["locals"][0]["t"])]
        for c in sorted(collectors):
            group = [c] + sorted(x for x in fb.reachable_from([c]) if x != c and fb.mir.get(x, {}).get("self_ty") == adt)
            free = set()
            for g in group:
                b = fb.mir[g]
                fl = Flow(fb, b)
                cfg = CFG(b)
                for bi, bl in enumerate(b["blocks"]):
                    places = []
                    for st in bl["s"]:
                        if st["k"] == "assign":
                            places += _places_of_rv(st["rv"])
                    t = bl["t"]
                    if t["k"] == "call":
                        places += [a["p"] for a in t.get("args", []) if "p" in a]
                    elif t["k"] == "switch" and "p" in t["op"]:
                        places.append(t["op"]["p"])
                    here = {e["f"] for p_ in places for e in p_.get("pr", []) if isinstance(e, dict) and e.get("of") == adt and e.get("f") in kinds}
                    if not here:
                        continue
                    others = set()
                    for x in cfg.control_deps_transitive(bi):
                        tt = b["blocks"][x]["t"]
                        if tt["k"] == "switch":
                            others |= {a[2] for a in fl.atoms(tt["op"]) if a[0] == "field" and a[1] == adt and a[2] in kinds}
                    for f in here:
                        if not (others - {f}):
                            free.add(f)
            chk.touch(*group)
            for f in kinds:
                chk.ob(r, "%s::%s:%s" % (adt.split("::")[-1], c.split("::")[-1], f), f in free, where=fb.loc(c),
                       detail="visited independently of the other kinds" if f in free else "every read of `%s` happens only when other kinds are absent: in a combination chart its series are skipped" % f)


def run(chk, fb, tier):
    C09._FB[:] = [fb]
    rule_kernels(chk, fb)
    C09.rule_whole_reference(chk, fb, list(formula_kernels(fb)[0]), "C08.h", floor=2)
    C09.rule_every_token(chk, fb, list(formula_kernels(fb)[0]), "C08.i", floor=2)
    rule_sheet_match(chk, fb)
    rule_chain(chk, fb)
    # C08.e every holder of references is visited (fan-out of the sheet-aware family)
    C07.rule_fanout(chk, fb, tier, traits=(C07.T_SHEET, T_2SHEET), prefix="C08.e", with_retain=False)
    C07.rule_unconditional(chk, fb, traits=(C07.T_SHEET, T_2SHEET), prefix="C08.e", offset_args={T_2SHEET: {5, 7}})
    rule_guard_sources(chk, fb)
    rule_parse_wiring(chk, fb)
    rule_render_wiring(chk, fb)
    rule_all_kinds(chk, fb)
    from props import C02

    C02.rule_quote_inverse(chk, fb, "C08.g")
    # C08.f termination of the edit: the tokenizer's loops make progress
    for d in C09.find_tokenizer(fb):
        C09.rule_progress(chk, fb, d)
    chk.assume("split_address/join_address are inverse on the sheet qualifier (C17, not decided)")
    chk.note("not decided: that non-reference lexemes are preserved for all formulas (C09, value-level)")
