"""C01 — cell content survives save and reload. Clauses a–d (DESIGN.md section 4)."""
import importlib.util
import os

import hirq
from e2 import fields_read
from kernel import Interp, NotKernel, Panic, ev, show, freeze, inputs_of
from itermodel import IterInterp
from mirq import Flow

_spec = importlib.util.spec_from_file_location("ecma376", os.path.join(os.path.dirname(__file__), "..", "..", "spec", "ecma376.py"))
SPEC = importlib.util.module_from_spec(_spec)
_spec.loader.exec_module(SPEC)

CELL = "structs::cell::Cell"
CELLVALUE = "structs::cell_value::CellValue"
RAW = "structs::cell_raw_value::CellRawValue"


class CellInterp(IterInterp):
    """Inlines only the small type-selection helpers of Cell / CellValue / CellRawValue; drivers stay opaque."""

    def __init__(self, fb):
        def inline(fn):
            b = fb.mir.get(fn)
            if not b:
                return False
            nm = fn.split("::")[-1]
            return b.get("self_ty") in (CELL, CELLVALUE, RAW) and len(b["blocks"]) < 60 and (nm.startswith("get_data_type") or nm.startswith("is_") or nm in ("get_cell_value",))

        super().__init__(fb, inline=inline)


def decidable_true(conds, val):
    for c, e in conds:
        try:
            v = ev(c, val)
        except (KeyError, Panic, NotKernel, TypeError):
            continue  # undecidable atom: don't care
        if isinstance(e, tuple) and e and e[0] == "not":
            if v in e[1]:
                return False
        elif v != e:
            return False
    return True


def writer_table(fb):
    """(kind, has_formula) -> {"t": set of t values, "payload": [terms]} from Cell::write_to."""
    d = CELL + "::write_to"
    it = CellInterp(fb)
    b = fb.mir[d]
    paths = list(it.run(d, [("arg", i + 1) for i in range(b["argc"])]))
    variants = fb.enum_variants(RAW)
    # discriminant atoms
    atoms = set()
    for f, a, c in it.events:
        for cc, _ in c:
            inputs_of(cc, atoms)
        for x in a:
            inputs_of(x, atoms)
    d_raw = [x for x in atoms if x[0] == "discr" and show(x).endswith("raw_value)")]
    d_for = [x for x in atoms if x[0] == "discr" and show(x).endswith("formula)")]
    table = {}
    for ki, kname in enumerate(variants):
        for f in (0, 1):
            val = {}
            for x in d_raw:
                val[x] = ki
            for x in d_for:
                val[x] = f
            ts = set()
            payload = []
            for fn, args, conds in it.events:
                nm = fn.split("::")[-1]
                if not decidable_true(conds, val):
                    continue
                if nm == "push" and len(args) == 2 and args[1][0] == "tuple":
                    key = args[1][1][0]
                    if key == ("const", "t"):
                        try:
                            ts.add(ev(args[1][1][1], val))
                        except Exception:
                            ts.add("?")
                elif nm.startswith("write_text_node"):
                    if not any(freeze(args[1]) == freeze(p_[1]) and nm == p_[0] for p_ in payload):
                        payload.append((nm, args[1], conds))
            table[(kname, f)] = {"t": ts, "payload": payload}
    return table, it


def reader_bodies(fb):
    """HIR of the cell reader: Cell::set_attributes and the private Cell helpers it hands the work to."""
    root = CELL + "::set_attributes"
    out = [fb.hir[root]]
    seen = {root}
    work = [root]
    while work:
        d = work.pop()
        for c in hirq.called_defs(fb.hir[d]["body"]):
            if c not in seen and c in fb.hir and c.startswith(CELL + "::") and fb.mir.get(c, {}).get("vis") != "pub" and c.split("::")[-1] not in ("write_to",):
                seen.add(c)
                out.append(fb.hir[c])
                work.append(c)
    return out


def reader_table(fb):
    """t literal -> list of crate methods called in that arm of Cell::set_attributes (+ the inlineStr test)."""
    h = fb.hir[CELL + "::set_attributes"]
    best = None
    for hb in reader_bodies(fb):
        for m, rows in hirq.match_tables(hb["body"]):
            lits = set()
            for ls, arm in rows:
                for l in ls or []:
                    lits.add(l)
            if len(lits & set(SPEC.ST_CELL_TYPE)) >= 3:
                best = (m, rows)
    table = {}
    if best:
        for ls, arm in best[1]:
            for l in ls or []:
                table[l] = [c for c in hirq.called_defs(arm["body"]) if c.startswith("structs::")]
    for hb in reader_bodies(fb):
        for x in hirq.walk(hb["body"]):
            if x.get("k") == "if":
                r = hirq.eq_literal_test(x["cond"])
                if r and r[1] in SPEC.ST_CELL_TYPE and not r[2]:
                    table.setdefault(r[1], [])
                    table[r[1]] += [c for c in hirq.called_defs(x["then"]) if c.startswith("structs::")]
    return table, best[0] if best else None


def constructible(fb, fn, memo=None, depth=0):
    """Variants of CellRawValue that calling crate fn `fn` can store / return."""
    memo = memo if memo is not None else {}
    if fn in memo:
        return memo[fn]
    memo[fn] = set()
    b = fb.mir.get(fn)
    if not b or depth > 4:
        return set()
    out = set()
    for bl in b["blocks"]:
        for s in bl["s"]:
            if s["k"] == "assign" and s["rv"]["k"] == "agg" and s["rv"].get("adt") == RAW:
                out.add(s["rv"]["variant"])
        t = bl["t"]
        if t["k"] == "call":
            f = t.get("fn", "")
            if f in fb.mir and (fb.mir[f].get("self_ty") in (CELL, CELLVALUE, RAW)):
                out |= constructible(fb, f, memo, depth + 1)
    memo[fn] = out
    return out


def rule_kind_table(chk, fb):
    ra = chk.rule(
        "C01.a",
        "kind/tag table round trip: for every value kind and formula presence, the t= the writer emits selects a reader arm whose setter can construct that same kind; every ST_CellType value has a reader arm; the literals of a kind agree on both sides",
        floor=9,
    )
    rb = chk.rule(
        "C01.b",
        "payload depends on the value: in every kind's branch the text written into <v> is data-dependent on the cell value (not a constant)",
        floor=5,
    )
    W, it = writer_table(fb)
    R, _ = reader_table(fb)
    chk.touch(CELL + "::write_to", CELL + "::set_attributes", *it.inlined)
    memo = {}
    for (kind, f), row in sorted(W.items()):
        if kind in ("Empty", "Lazy"):
            continue  # no <v> is written for Empty; Lazy is a reader-side deferred value, out of the property's domain
        if kind == "RichText" and f == 1:
            continue  # a formula's cached result is never rich text in SpreadsheetML (t="str" carries a plain string)
        ts = row["t"]
        t = next(iter(ts)) if len(ts) == 1 else ("" if not ts else "?")
        arm = R.get(t if t != "n" else "n", R.get(t))
        if t == "":
            arm = R.get("")
        can = set()
        for c in arm or []:
            can |= constructible(fb, c, memo)
        ok = arm is not None and kind in can and len(ts) <= 1
        # text must not be re-interpreted and digits must not be guessed: those kinds need a dedicated arm
        if ok and kind in ("String", "RichText") and not can <= {"String", "RichText"}:
            ok = False
        if ok and kind == "Bool" and can != {"Bool"}:
            ok = False
        chk.ob(
            ra,
            "kind(%s,formula=%d)" % (kind, f),
            ok,
            where=fb.loc(CELL + "::write_to"),
            detail="writer emits t=%r; reader arm calls %s which can construct %s%s" % (t, [c.split("::")[-1] for c in (arm or [])], sorted(can), "" if ok or kind not in can else " — not a dedicated arm: the payload of a %s cell would be re-interpreted by the type guesser" % kind),
            key="kind(%s,formula=%d)%s" % (kind, f, "" if ok else ":t=%s" % t),
        )
        # payload
        pl = row["payload"]
        if not pl:
            chk.ob(rb, "payload(%s,formula=%d)" % (kind, f), False, where=fb.loc(CELL + "::write_to"), detail="no payload write on this branch")
            continue
        nm, term = pl[0][0], pl[0][1]
        acc = set()
        for _, tm, cs in pl:
            inputs_of(tm, acc)
        if len(pl) > 1:
            # several payloads selected by conditions: the selecting conditions must depend on the value
            common = set.intersection(*(set((freeze(c), e if not isinstance(e, list) else tuple(e)) for c, e in cs) for _, _, cs in pl))
            for _, tm, cs in pl:
                for c, e in cs:
                    if (freeze(c), e) not in common:
                        inputs_of(c, acc)
            term = ("tuple", tuple(tm for _, tm, _ in pl))
        dep = any("arg1" in show(x) for x in acc)
        chk.ob(
            rb,
            "payload(%s,formula=%d)" % (kind, f),
            dep,
            where=fb.loc(CELL + "::write_to"),
            detail="<v> payload via %s = %s" % (nm, show(term)[:160]),
            key="payload(%s,formula=%d)%s" % (kind, f, "" if dep else ":const"),
        )
        # escaping class of the payload channel: text kinds must go through an escaping writer
        if kind in ("String", "RichText") and t != "s":
            pass
    # bool literal agreement: writer's TRUE digit == reader's compared literal
    rlit = None
    for hb in reader_bodies(fb):
        for m, rows in hirq.match_tables(hb["body"]):
            for ls, arm in rows:
                if ls and "b" in ls:
                    for x in hirq.walk(arm["body"]):
                        r = hirq.eq_literal_test(x) if x.get("k") == "bin" else None
                        if r:
                            rlit = r[1]
    wdigits = None
    for (kind, f), row in W.items():
        if kind == "Bool" and f == 0 and row["payload"]:
            consts = []
            for p_ in row["payload"]:
                _collect_consts(p_[1], consts)
            wdigits = consts
    ok = rlit is not None and wdigits is not None and rlit in wdigits and len(set(wdigits) - {"TRUE", "FALSE"}) >= 2
    chk.ob(ra, "bool-literal", ok, where=fb.loc(CELL + "::write_to"), detail="reader compares <v> with %r; writer's bool payload literals %s" % (rlit, wdigits))


def rule_reader_arms(chk, fb, rid):
    """(used by C03.c) every ST_CellType value has a reader arm."""
    R, _ = reader_table(fb)
    for tval in SPEC.ST_CELL_TYPE:
        ok = tval in R and bool(R[tval])
        chk.ob(rid, "reader-arm(t=%s)" % tval, ok, where=fb.loc(CELL + "::set_attributes"), detail="reader arm for t=%r: %s" % (tval, [c.split("::")[-1] for c in R.get(tval, [])] or "none"))


def _collect_consts(t, acc):
    if isinstance(t, tuple):
        if t and t[0] == "const" and isinstance(t[1], str):
            acc.append(t[1])
        else:
            for x in t:
                _collect_consts(x, acc)


# ------------------------------------------------------------------------------------------------
# C01.c text channel escaping
RAW_EXCEPTIONS = {
    "structs::vml::text_box::TextBox::write_to": "VML text box stores an already-serialised inner XML fragment and writes it back verbatim (by design)",
}


def rule_escape(chk, fb):
    rc = chk.rule(
        "C01.c",
        "text channel pairing: model strings reach the XML sink only through the escaping wrappers; the raw writer is called only from the partial-escape wrapper (listed exceptions aside); the wrappers themselves escape; every reader arm that consumes Event::Text unescapes the bound event exactly once",
        floor=30,
    )
    drv = "writer::driver::"
    raw = drv + "write_text_node_no_escape"
    conv = drv + "write_text_node_conversion"
    esc = drv + "write_text_node"
    for need in (raw, conv, esc):
        if need not in fb.mir:
            chk.ob(rc, "anchor:%s" % need, False, detail="driver function missing")
            return
    # who may call the raw writer
    for caller, bi in sorted(set(fb.callers.get(raw, []))):
        if caller == conv:
            chk.ob(rc, "raw-caller:%s" % caller, True, where=fb.loc(caller), detail="the partial-escape wrapper")
            continue
        parent = caller.split("::{closure")[0]
        if parent in RAW_EXCEPTIONS:
            chk.ob(rc, "raw-caller:%s" % caller, True, where=fb.loc(caller), detail="listed exception: %s" % RAW_EXCEPTIONS[parent], nontrivial=False)
            continue
        b = fb.mir[caller]
        chk.ob(rc, "raw-caller:%s" % parent, False, where="%s:%s" % (b["file"], b["blocks"][bi]["t"]["ln"] if bi >= 0 else b["line"]), detail="writes model text with the non-escaping writer: XML-special characters in it corrupt the part")
    # raw sink writes (Writer::get_mut + io::Write::write*) only inside the raw wrapper
    for d, b in sorted(fb.mir.items()):
        if d == raw:
            continue
        for bi, t in fb.calls_in(b):
            if t.get("fn", "").startswith("quick_xml::Writer::<W>::get_mut"):
                chk.ob(rc, "raw-sink:%s" % d, False, where="%s:%s" % (b["file"], t["ln"]), detail="obtains the raw byte sink of the XML writer outside the driver")
    # wrappers sanitize
    eb = fb.mir[esc]
    ctor = [t["fn"] for _, t in fb.calls_in(eb) if "BytesText" in t.get("fn", "")]
    ok = any(c.endswith("::new") for c in ctor) and not any("from_escaped" in c for c in ctor)
    chk.ob(rc, "wrapper:write_text_node", ok, where=fb.loc(esc), detail="builds its event with %s (BytesText::new escapes, from_escaped does not)" % [c.split("::")[-1] for c in ctor])
    cb = fb.mir[conv]
    fl = Flow(fb, cb)
    okc = False
    for bi, t in fl.calls(lambda t: t.get("fn") == raw):
        at = fl.atoms(t["args"][1])
        okc = any(a[0] == "call" and a[1].endswith("partial_escape") for a in at)
    chk.ob(rc, "wrapper:write_text_node_conversion", okc, where=fb.loc(conv), detail="data passes through quick_xml partial_escape before the raw write: %s" % okc)
    n_from_escaped = 0
    for d, b in fb.mir.items():
        for bi, t in fb.calls_in(b):
            if "BytesText" in t.get("fn", "") and "from_escaped" in t["fn"]:
                n_from_escaped += 1
                chk.ob(rc, "from_escaped:%s" % d, False, where="%s:%s" % (b["file"], t["ln"]), detail="constructs a text event from 'already escaped' data")
    # reader: Event::Text consumers
    n = 0
    for d, h in sorted(fb.hir.items()):
        idx = 0
        for x in hirq.walk(h["body"]):
            if x.get("k") != "match":
                continue
            for arm in x["arms"]:
                p = arm["pat"]
                bind = _text_binding(p)
                if bind is None:
                    continue
                calls = [c for c in hirq.calls(arm["body"]) if c.get("k") == "mcall" and c.get("name") in ("unescape", "unescape_and_decode", "unescape_with") and hirq.strip(c["recv"]).get("lid") == bind]
                uses = [y for y in hirq.walk(arm["body"]) if y.get("k") == "path" and y.get("lid") == bind]
                if not uses:
                    continue  # text ignored
                chk.touch(d)
                trims = sorted({(c.get("name") or "") for c in hirq.calls(arm["body"]) if (c.get("name") or "").startswith("trim")})
                ok = len(calls) == 1 and len(uses) == 1 and not trims
                chk.ob(rc, "text-consumer:%s#%d" % (d, idx), ok, where="%s:%s" % (h["file"], arm["ln"]), detail="Event::Text bound value used %d time(s), unescaped %d time(s)%s" % (len(uses), len(calls), "; the text is trimmed (%s) before it is stored: leading/trailing whitespace of the cell text is lost" % trims if trims else ""))
                idx += 1
                n += 1


def _text_binding(p):
    """lid of the binding in a pattern Event::Text(e) / Ok(Event::Text(e))."""
    k = p.get("k")
    if k in ("ts", "struct"):
        d = p.get("def", "")
        subs = p.get("subs") or [f["pat"] for f in p.get("fields", [])]
        if d.endswith("Event::Text") and subs:
            s = subs[0]
            while s.get("k") == "ref":
                s = s["sub"]
            if s.get("k") == "bind":
                return s.get("lid")
        for s in subs:
            r = _text_binding(s)
            if r is not None:
                return r
    if k == "ref":
        return _text_binding(p["sub"])
    if k == "or":
        for s in p["subs"]:
            r = _text_binding(s)
            if r is not None:
                return r
    return None


# ------------------------------------------------------------------------------------------------
# C01.d interning key covers the content
def rule_key(chk, fb):
    rd = chk.rule(
        "C01.d",
        "interning key covers the content: the shared-string key function (and the keys it is built from) reads every field of its struct",
        floor=4,
    )
    targets = [
        ("structs::shared_string_item::SharedStringItem", "get_hash_u64", ()),
        ("structs::text::Text", "get_hash_code", ()),
        ("structs::rich_text::RichText", "get_hash_code", ()),
        ("structs::text_element::TextElement", "get_hash_code", ()),
    ]
    # by role: the key function of the table is the one whose result is used as key of the table's map in set_cell
    tbl = "structs::shared_string_table::SharedStringTable::set_cell"
    if tbl in fb.mir:
        fl = Flow(fb, fb.mir[tbl])
        keyfns = set()
        for bi, t in fl.calls(lambda t: t.get("fn", "").startswith("std::collections::HashMap::") and t["fn"].split("::")[-1] in ("get", "insert")):
            for a in fl.atoms(t["args"][1]):
                if a[0] == "call" and a[1].startswith("structs::") and "get_hash" in a[1]:
                    keyfns.add(a[1])
        for kf in sorted(keyfns):
            adt = fb.mir[kf].get("self_ty")
            targets = [(adt, kf.split("::")[-1], ())] + [t for t in targets if t[0] != adt]
    # every lookup / registration in the table's map is keyed by the content key of the whole item
    ru = chk.rule(
        "C01.d.use",
        "the table is looked up and filled by the full key: every key passed to the shared-string table's map (get / insert / contains_key / entry) derives from the content-key function of the item, not from a part of the content",
        floor=2,
    )
    ITEM = "structs::shared_string_item::SharedStringItem"
    TBL = "structs::shared_string_table::SharedStringTable"
    for d, b in sorted(fb.mir.items()):
        root = d.split("::{closure")[0]
        if fb.mir.get(root, {}).get("self_ty") != TBL:
            continue
        fl = Flow(fb, b)
        n = 0
        for bi, t in fl.calls(lambda t: t.get("fn", "").startswith("std::collections::HashMap::") and t["fn"].split("::")[-1] in ("get", "insert", "contains_key", "entry", "get_mut", "remove")):
            if len(t["args"]) < 2:
                continue
            recv = fl.atoms(t["args"][0])
            if ("field", TBL, "map") not in recv:
                continue
            at = fl.atoms(t["args"][1])
            full = any(a[0] == "call" and fb.mir.get(a[1], {}).get("self_ty") == ITEM and "hash" in a[1].split("::")[-1] for a in at)
            chk.touch(d)
            chk.ob(ru, "%s:%s#%d" % (d.split("::", 2)[-1], t["fn"].split("::")[-1], n), full, where="%s:%s" % (b["file"], t["ln"]),
                   detail="key derives from %s" % sorted(a[1].split("::")[-1] for a in at if a[0] == "call" and not a[1].startswith(("std::", "core::", "<"))))
            n += 1
    # the index handed out for a new string is its position in the item list
    ri = chk.rule(
        "C01.d.index",
        "a new string's index is its position: every number the shared-string table stores in its map or returns from the interning function derives from the length of the ITEM LIST (taken before the append) or from the map's stored values - never from the size of the map, which is smaller when the loaded table holds duplicates",
        floor=2,
    )
    for d, b in sorted(fb.mir.items()):
        root = d.split("::{closure")[0]
        if fb.mir.get(root, {}).get("self_ty") != TBL or root != d:
            continue
        fl = Flow(fb, b)
        sinks = []
        for bi, t in fl.calls(lambda t: t.get("fn", "").split("::")[-1] == "insert" and ("HashMap" in t["fn"] or "VacantEntry" in t["fn"] or "Entry" in t["fn"])):
            recv = fl.atoms(t["args"][0])
            if ("field", TBL, "map") in recv and len(t["args"]) >= 2:
                sinks.append(("stored", t, t["args"][-1]))
        if fb.ty(b["locals"][0]["t"]) == "usize" and any(x[0] == "stored" for x in sinks):
            sinks.append(("returned", {"ln": b["line"]}, {"p": {"l": 0}}))
        for kind, t, op in sinks:
            at = fl.atoms(op)
            lens = [a for a in at if a[0] == "call" and a[1].split("::")[-1] == "len"]
            from_items = from_map = False
            for a in lens:
                ra_ = fl.atoms(b["blocks"][a[2]]["t"]["args"][0])
                if ("field", TBL, "shared_string_item") in ra_:
                    from_items = True
                if ("field", TBL, "map") in ra_ and ("field", TBL, "shared_string_item") not in ra_:
                    from_map = True
            counter = bool(at) and all(a[0] == "const" or (a[0] == "field" and a[1] == "tuple") for a in at)  # a running count kept beside the appends
            from_items = from_items or counter
            chk.touch(d)
            chk.ob(ri, "%s:%s" % (d.split("::", 2)[-1], kind), from_items and not from_map, where="%s:%s" % (b["file"], t.get("ln")),
                   detail="index %s: from the item list's length (or a running count of the appends): %s; from the map's size: %s" % (kind, from_items, from_map))
    for adt, fn, exc in targets:
        d = "%s::%s" % (adt, fn)
        if d not in fb.mir or adt not in fb.adts:
            chk.ob(rd, "%s::%s" % (adt.split("::")[-1], fn), False, detail="key function not found")
            continue
        chk.touch(d)
        fields = set(fb.struct_fields(adt))
        read = fields_read(fb, d, adt)
        missing = sorted(fields - read - set(exc))
        chk.ob(rd, "%s::%s" % (adt.split("::")[-1], fn), not missing, where=fb.loc(d), detail="fields %s; read %s; missing %s" % (sorted(fields), sorted(read), missing))
        # a key is built from the keys of its parts: a field whose (element) type has a content key of its own contributes
        # through that key, not through a projection of it (its plain text, its length ...)
        reach = {d}
        frontier = [d]
        for _ in range(3):
            nxt = []
            for f_ in frontier:
                for c in [f_] + [x for x in fb.mir if x.startswith(f_ + "::{closure")]:
                    for _, t in fb.calls_in(fb.mir[c]):
                        g = t.get("fn", "")
                        cands = [g] + [a.get("cfn", "") for a in t.get("args", [])]
                        for g in cands:
                            if g in fb.mir and g not in reach:
                                reach.add(g)
                                if fb.mir[g].get("self_ty") == adt:
                                    nxt.append(g)
            frontier = nxt
        for f in fb.adts[adt]["variants"][0]["fields"]:
            for other, ofn, _ in targets:
                if other != adt and other in f["ty"]:
                    part_key = "%s::%s" % (other, ofn)
                    # ... or through a method of the part that reads all of the part's fields (a one-field wrapper's getter)
                    ofields = set(fb.struct_fields(other))
                    whole = [g for g in reach if fb.mir.get(g, {}).get("self_ty") == other and ofields <= fields_read(fb, g, other)]
                    ok = part_key in reach or bool(whole)
                    chk.ob(rd, "%s::%s:via(%s)" % (adt.split("::")[-1], fn, other.split("::")[-1]), ok, where=fb.loc(d),
                           detail="field `%s` (%s) contributes through %s::%s: %s" % (f["name"], other.split("::")[-1], other.split("::")[-1], ofn, ok))


def rule_number_text(chk, fb):
    re_ = chk.rule(
        "C01.e",
        "numbers are rendered from the stored f64 itself: no float-to-integer cast lies on the path from a Numeric cell value to its text (Display of the raw value, value getters)",
        floor=2,
    )
    targets = [d for d, b in fb.mir.items() if b.get("self_ty") in (RAW, CELLVALUE) and (d.endswith("::fmt") or d.split("::")[-1] in ("get_value", "get_value_number", "to_string"))]
    for d in sorted(targets):
        b = fb.mir[d]
        casts = [s for bl in b["blocks"] for s in bl["s"] if s["k"] == "assign" and s["rv"]["k"] == "cast" and s["rv"].get("ck") == "FloatToInt"]
        chk.touch(d)
        chk.ob(re_, "%s" % d, not casts, where=fb.loc(d) if not casts else "%s:%s" % (b["file"], casts[0]["ln"]), detail="float-to-int casts on the number-to-text path: %d%s" % (len(casts), " (whole numbers beyond the integer range saturate)" if casts else ""))


def rule_rich_text_set(chk, fb, rid="C01.f.set"):
    """set_text(v) followed by get_text() is v: the plain-text setter of a rich text replaces all runs - it empties the
    run list (or assigns a fresh one) on every path before it adds the new run."""
    from cfg import CFG

    RICH = "structs::rich_text::RichText"
    r = chk.rule(
        rid,
        "set then get for rich text: the method that sets a rich text from a plain string empties the run list (clear / a fresh list assigned) on every path - otherwise the old trailing runs stay part of the value",
        floor=1,
    )
    for d, b in sorted(fb.mir.items()):
        if b.get("self_ty") != RICH or b["kind"] != "AssocFn" or d.split("::")[-1] != "set_text":
            continue
        fl = Flow(fb, b)
        cfg = CFG(b)
        resets = []
        for bi, t in fl.calls():
            if t.get("fn", "").split("::")[-1] in ("clear",) and t["args"] and any(a[0] == "field" and a[1] == RICH and a[2] == "rich_text_elements" for a in fl.atoms(t["args"][0], through_calls=False)):
                resets.append(bi)
        for bi, bl in enumerate(b["blocks"]):
            for st in bl["s"]:
                if st["k"] == "assign" and [e.get("f") for e in st["lhs"].get("pr", []) if isinstance(e, dict)] == ["rich_text_elements"]:
                    resets.append(bi)
        ok = any(x == 0 or cfg.postdominates(x, 0) for x in resets)
        chk.touch(d)
        chk.ob(r, "RichText::set_text", ok, where=fb.loc(d), detail="run list emptied / replaced on every path: %s (%d reset site(s))" % (ok, len(resets)))


def rule_guess_whole(chk, fb, rid="C01.e.guess"):
    """`set_value("  12 ")` is text: the type guesser's number test looks at the text as given.  A trimmed, cut or
    rewritten copy makes padded or decorated text a number and the blanks are gone from the stored value."""
    from props.C14 import LOSSY, LOSSY_ON_STR

    r = chk.rule(
        rid,
        "the number test sees the text as given: in the type guesser, the receiver of str::parse derives from the parameter through no trimming, cutting or rewriting call",
        floor=1,
    )
    for d, b in sorted(fb.mir.items()):
        if b.get("self_ty") != CELLVALUE or d.split("::")[-1] != "guess_typed_data":
            continue
        fl = Flow(fb, b)
        n = 0
        for bi, t in fl.calls(lambda t: t.get("fn", "").endswith("str>::parse") or t.get("fn", "").split("::")[-1] == "parse"):
            at = fl.atoms(t["args"][0], stop_calls=lambda f: f in fb.mir) if t["args"] else set()
            if not any(a[0] == "arg" for a in at):
                continue
            cuts = sorted({a[1].split("::")[-1] for a in at if a[0] == "call" and a[1].split("::")[-1] in LOSSY + LOSSY_ON_STR and a[1].split("::")[-1] not in ("get", "index")})
            chk.touch(d)
            chk.ob(r, "guess_typed_data:parse#%d" % n, not cuts, where="%s:%s" % (b["file"], t.get("ln")), detail="calls between the parameter and parse that shorten or rewrite the text: %s" % (cuts or "none"))
            n += 1


def rule_number_exact(chk, fb, rid="C01.e.exact"):
    """The text of a number is the shortest text that parses back to the same f64 (Rust's `{}` for f64).  Anything put
    between the stored value and that placeholder - a rounding helper, a precision, a cast - makes two numbers share a
    text, and the text is what is written to the file and exported."""
    import hirq

    r = chk.rule(
        rid,
        "number text is exact: in the Display impl of the raw cell value the Numeric payload goes to a plain `{}` placeholder as it is - no crate function, no cast and no precision/width between the stored f64 and the formatter",
        floor=1,
    )
    d = "<%s as std::fmt::Display>::fmt" % RAW
    h = fb.hir.get(d)
    if not h:
        chk.ob(r, "anchor", False, detail="Display impl of the raw cell value not found")
        return
    chk.touch(d)
    n = 0
    for x in hirq.walk(h["body"]):
        if x.get("k") != "match":
            continue
        for arm in x["arms"]:
            pat = arm["pat"]
            while pat.get("k") == "ref":
                pat = pat["sub"]
            if not (pat.get("k") == "ts" and pat.get("def", "").endswith("::Numeric")):
                continue
            body = arm["body"]
            crate_calls = sorted({c for c in hirq.called_defs(body) if c in fb.mir or c in fb.hir})
            casts = [y.get("ln") for y in hirq.walk(body) if y.get("k") == "cast"]
            specs = hirq.format_specs(body)
            fancy = [ln for o, ln in specs if o is None or o != 0]
            ok = not crate_calls and not casts and not fancy
            chk.ob(r, "Numeric#%d" % n, ok, where="%s:%s" % (h["file"], arm.get("ln", "")),
                   detail="placeholders: %d (with width/precision/flags: %d); crate functions applied to the value: %s; casts: %d" % (len(specs), len(fancy), [c.split("::")[-1] for c in crate_calls] or "none", len(casts)))
            n += 1


FILTERS = ("filter", "filter_map", "skip", "take", "skip_while", "take_while", "step_by", "nth", "find", "last", "next")


def rule_rich_text_value(chk, fb):
    """The value text of a rich-text cell is the concatenation of all its runs (that is what is compared, exported and
    interned): the function that computes it must visit every run, whatever the run contains."""
    from cfg import CFG

    RICH = "structs::rich_text::RichText"
    r = chk.rule(
        "C01.f",
        "a rich text's value is all of its runs: the function that renders a RichText to plain text reads every element of the run list - no filtering / truncating iterator adaptor on it, and in a loop over it every path through the body fetches the run's text",
        floor=1,
    )
    for d, b in sorted(fb.mir.items()):
        if b.get("self_ty") != RICH or b["kind"] != "AssocFn" or b["argc"] != 1:
            continue
        rt = fb.ty(b["locals"][0]["t"])
        if not ("String" in rt or "Cow<" in rt):
            continue
        if "rich_text_elements" not in __import__("e2").direct_fields(b, RICH):
            continue
        bodies = [d] + [c for c in fb.mir if c.startswith(d + "::{closure")]
        filt = []
        gets = 0
        for bd in bodies:
            for bi, t in fb.calls_in(fb.mir[bd]):
                f = t.get("fn", "")
                o = t.get("orig", f)
                if o.startswith("std::iter::Iterator::") and o.split("::")[-1] in FILTERS and bd == d and not o.endswith("::next"):
                    filt.append(o.split("::")[-1])
                if f.endswith("TextElement::get_text") or any(x.get("cfn", "").endswith("TextElement::get_text") for x in t.get("args", [])):
                    gets += 1
        if gets == 0 and not d.endswith("::get_text"):
            continue  # another String-valued method of RichText (key, html ...), not the plain-text rendering
        cfg = CFG(b)
        bypass = False
        W = [bi for bi, t in fb.calls_in(b) if t.get("fn", "").endswith("TextElement::get_text")]
        for tail, head in cfg.back_edges():
            body = cfg.natural_loop(tail, head)
            if not any(w in body for w in W):
                continue
            seen = set()
            work = [head]
            while work:
                x = work.pop()
                if x in seen or x in W or x not in body:
                    continue
                seen.add(x)
                work.extend(z for z in cfg.succ[x] if z != head)
            if tail in seen:
                bypass = True
        chk.touch(d)
        chk.ob(r, "%s" % d.split("::", 2)[-1], gets > 0 and not filt and not bypass, where=fb.loc(d),
               detail="runs fetched: %s; filtering adaptors on the run list: %s; a path through the loop skips a run: %s" % (gets > 0, filt or "none", bypass))


def run(chk, fb, tier):
    rule_number_text(chk, fb)
    rule_number_exact(chk, fb)
    rule_guess_whole(chk, fb)
    rule_kind_table(chk, fb)
    rule_escape(chk, fb)
    rule_key(chk, fb)
    rule_rich_text_value(chk, fb)
    rule_rich_text_set(chk, fb)
    import symmetry

    symmetry.rule_text_untrimmed(chk, fb, "C01.c.trim")
    from props import C06

    C06.rule_variants(chk, fb, "C01.a.variants")
    C06.rule_empty_arms(chk, fb, "C01.a.empty")
    chk.assume("a 64-bit content hash stands in for equality of shared strings (collision-free)")
    chk.assume("quick-xml's BytesText::new / partial_escape / unescape are mutually inverse on the characters they handle")
    chk.note("not decided: identity of f64 through Display/parse, Unicode fidelity through quick-xml, equality of reloaded cell sets (value-level round trip)")
