"""C13 — saving to a path is all-or-nothing under I/O failure. Clauses a–d (DESIGN.md section 4)."""
from cfg import CFG
from mirq import Flow

CREATORS = ("std::fs::File::create", "cfb::create", "std::fs::OpenOptions::open", "std::fs::File::create_new", "std::fs::write")
INMEM = ("std::io::Cursor<", "std::vec::Vec<u8>", "std::string::String", "&mut std::string::String", "zip::ZipWriter<std::io::Cursor", "quick_xml::Writer<std::io::Cursor")


def path_operand(t):
    """Operand that carries the path of a file-creating call (OpenOptions::open takes the builder first)."""
    if t.get("fn") == "std::fs::OpenOptions::open":
        return t["args"][1] if len(t["args"]) > 1 else None
    return t["args"][0] if t["args"] else None


def crate_reach(fb, root):
    return {d for d in fb.reachable_from([root]) if d in fb.mir}


def entry_points(fb):
    """pub fns of the writer modules that take a path-like parameter and reach a file-creating call."""
    out = []
    for d, b in sorted(fb.mir.items()):
        if b["kind"] != "Fn" or b.get("vis") != "pub" or not d.startswith("writer::"):
            continue
        if not b.get("generics"):
            continue
        reach = fb.reachable_from([d])
        if any(c in reach for c in CREATORS):
            # has a generic path parameter (AsRef<Path>): some parameter typed by a generic P used with AsRef::as_ref
            if path_params(fb, b):
                out.append(d)
    return out


def path_params(fb, b):
    gens = set(b.get("generics", []))
    return [i for i in range(1, b["argc"] + 1) if fb.ty(b["locals"][i]["t"]).lstrip("&") in gens or "Path" in fb.ty(b["locals"][i]["t"])]


def creates_at_param(fb, fn, memo):
    """Parameter indexes of crate fn `fn` whose value reaches the path argument of a file-creating call (transitively)."""
    if fn in memo:
        return memo[fn]
    memo[fn] = set()
    b = fb.mir.get(fn)
    if not b:
        return set()
    fl = Flow(fb, b)
    out = set()
    for bi, t in fl.calls():
        f = t.get("fn", "")
        if f in CREATORS and t["args"]:
            out |= {a[1] for a in fl.atoms(path_operand(t)) if a[0] == "arg"}
        elif f in fb.mir:
            for p in creates_at_param(fb, f, memo):
                if p - 1 < len(t["args"]):
                    out |= {a[1] for a in fl.atoms(t["args"][p - 1]) if a[0] == "arg"}
    memo[fn] = out
    return out


def returns_tmp(fb, fn, memo, depth=0):
    """Does crate fn `fn` return a path made with Path::with_extension (the temporary name), possibly through helpers?"""
    if fn in memo:
        return memo[fn]
    memo[fn] = False
    b = fb.mir.get(fn)
    if not b or depth > 3:
        return False
    fl = Flow(fb, b)
    r = is_tmp(fb, fl.atoms(0), memo, depth + 1)
    memo[fn] = r
    return r


def is_tmp(fb, atoms, memo, depth=0):
    return any(a[0] == "call" and (a[1].endswith("Path::with_extension") or (a[1] in fb.mir and returns_tmp(fb, a[1], memo, depth))) for a in atoms)


def save_unit(fb, d, memo):
    """(function holding the create/rename logic, index of its destination parameter, delegation call or None).
    Usually the entry point itself; a thin entry point that hands its path to one private body is followed."""
    b = fb.mir[d]
    pps = path_params(fb, b)
    dest = pps[-1] if pps else None
    fl = Flow(fb, b)
    own = any(t.get("fn") == "std::fs::rename" or t.get("fn") in CREATORS for _, t in fl.calls())
    if own or dest is None:
        return d, dest, None
    for bi, t in fl.calls():
        f = t.get("fn", "")
        if f in fb.mir and any(c in fb.reachable_from([f]) for c in CREATORS):
            for i, a in enumerate(t["args"]):
                plumbing = lambda g: not g.split("<")[0].endswith(("::as_ref", "::deref", "::borrow", "::as_path", "::as_os_str")) and not g.endswith(("::as_ref", "::deref", "::borrow", "::as_path"))
                if ("arg", dest) in fl.atoms(a, stop_calls=plumbing) and (i + 1) in path_params(fb, fb.mir[f]):
                    if any(tt.get("fn") == "std::fs::rename" for _, tt in fb.calls_in(fb.mir[f])):
                        return f, i + 1, (bi, t)
    return d, dest, None


def rule_tmp_names(chk, fb, eps, rid):
    """The temporary name can never coincide with a destination, and two destinations never share one: the extension it
    is given is built from the destination's own extension ("xlsx" -> "xlsxtmp"); a constant extension ("tmp") collides
    with a destination that already carries it and makes book.xlsx and book.xlsm share one temporary file."""
    r = chk.rule(
        rid,
        "temporary names are private to their destination: wherever a save path derives its temporary name with Path::with_extension, the new extension is computed from the destination's own extension (or file name), not a constant",
        floor=5,
    )
    memo, tmemo = {}, {}
    for d in eps:
        unit = save_unit(fb, d, memo)[0]
        b = fb.mir[unit]
        fl = Flow(fb, b)
        name_bodies = [(unit, b, fl)] + [(f, fb.mir[f], Flow(fb, fb.mir[f])) for f in sorted({t.get("fn", "") for _, t in fl.calls()}) if f in fb.mir and returns_tmp(fb, f, tmemo)]
        nx = 0
        for nf, nb, nfl in name_bodies:
            for bi, t in nfl.calls(lambda t: t.get("fn", "").endswith("Path::with_extension")):
                at = nfl.atoms(t["args"][1]) if len(t["args"]) > 1 else set()
                own_ext = any(a[0] == "call" and a[1].endswith(("Path::extension", "Path::file_name")) for a in at)
                chk.touch(d, unit)
                chk.ob(r, "%s:tmp-name#%d" % (d, nx), own_ext, where="%s:%s" % (nb["file"], t.get("ln")),
                       detail="temporary name = destination with an extension %s" % ("built from the destination's own extension" if own_ext else "that does NOT depend on the destination's extension (%s): it equals the destination for some destinations and is shared by destinations that differ only in extension" % sorted(str(a[1])[:20] for a in at if a[0] == "const")))
                nx += 1


def rule_temp_rename(chk, fb, eps):
    ra = chk.rule(
        "C13.a",
        "temp-then-rename: the only file a save entry point creates is at a name derived from the temporary name (with_extension), never the caller's destination; fs::rename(tmp, dest) has the temp name first and the destination second and follows every fallible step on its success edge",
        floor=5,
    )
    memo = {}
    tmemo = {}
    for d in eps:
        unit, dest, via = save_unit(fb, d, memo)
        chk.touch(d, unit)
        if via is not None:
            # a thin entry point: the result of the private body must be what the entry point returns
            eb = fb.mir[d]
            efl = Flow(fb, eb)
            ok = any(a[0] == "call" and a[2] == via[0] for a in efl.atoms(0))
            chk.ob(ra, "%s:delegates" % d, ok, where="%s:%s" % (eb["file"], via[1]["ln"]), detail="the entry point hands its destination to %s and returns its result: %s" % (unit.split("::")[-1], ok))
            # ... and to nothing else that writes files: two atomic saves in a row are not one atomic save (the destination is
            # replaced by the first before the second can fail)
            others = sorted({t.get("fn", "").split("::")[-1] for bi2, t in efl.calls() if bi2 != via[0] and t.get("fn", "") in fb.mir and t["fn"] != unit
                             and any(c in fb.reachable_from([t["fn"]]) or c == t["fn"] for c in list(CREATORS) + ["std::fs::rename"])})
            chk.ob(ra, "%s:single-step" % d, not others, where=fb.loc(d), detail="other file-writing steps in the entry point besides %s: %s" % (unit.split("::")[-1], others or "none"))
        b = fb.mir[unit]
        fl = Flow(fb, b)
        cfg = CFG(b)
        # creation sites (direct or through callees)
        sites = []
        for bi, t in fl.calls():
            f = t.get("fn", "")
            if f in CREATORS and t["args"]:
                sites.append((bi, t, path_operand(t)))
            elif f in fb.mir:
                for p in creates_at_param(fb, f, memo):
                    if p - 1 < len(t["args"]):
                        sites.append((bi, t, t["args"][p - 1]))
        if not sites:
            chk.ob(ra, "%s:creates" % d, False, where=fb.loc(d), detail="no file-creating call found")
        for n, (bi, t, arg) in enumerate(sites):
            at = fl.atoms(arg)
            tmp = is_tmp(fb, at, tmemo)
            chk.ob(ra, "%s:create#%d" % (d, n), tmp, where="%s:%s" % (b["file"], t["ln"]),
                   detail="file created through %s at a path %s" % (t["fn"].split("::")[-1], "derived from the temporary name" if tmp else "that is NOT a temporary name (the caller's destination is written in place)"))
            if t.get("fn") == "std::fs::OpenOptions::open":
                # a leftover temp file of an interrupted save must not shine through: the file is emptied (or must be new)
                opts = {a[1].split("::")[-1] for a in fl.atoms(t["args"][0]) if a[0] == "call" and a[1].startswith("std::fs::OpenOptions::")}
                fresh = bool(opts & {"truncate", "create_new"})
                chk.ob(ra, "%s:create#%d:truncated" % (d, n), fresh, where="%s:%s" % (b["file"], t["ln"]),
                       detail="temp file opened with options %s: %s" % (sorted(opts), "emptied / new" if fresh else "an existing longer file keeps its tail behind the new content"))
        # nothing but the rename touches the destination: every fs::remove_* on the save path removes the temp file
        for n, (bi, t) in enumerate(fl.calls(lambda t: t.get("fn", "").startswith("std::fs::remove_"))):
            at = fl.atoms(t["args"][0])
            tmp = is_tmp(fb, at, tmemo)
            chk.ob(ra, "%s:remove#%d" % (d, n), tmp, where="%s:%s" % (b["file"], t["ln"]),
                   detail="%s removes %s" % (t["fn"].split("::")[-1], "the temporary file" if tmp else "a path that is not the temporary name (the destination disappears before the rename: a failure in between leaves neither the old nor the new file)"))
        renames = [(bi, t) for bi, t in fl.calls(lambda t: t.get("fn") == "std::fs::rename")]
        if not renames:
            chk.ob(ra, "%s:rename" % d, False, where=fb.loc(d), detail="no fs::rename: the destination is not replaced atomically")
            continue
        for bi, t in renames:
            a0 = fl.atoms(t["args"][0])
            a1 = fl.atoms(t["args"][1])
            # the destination operand is the parameter itself: it must not come out of the temp-name computation
            a1d = a1
            ok = is_tmp(fb, a0, tmemo) and not is_tmp(fb, a1d, tmemo) and ("arg", dest) in a1d
            chk.ob(ra, "%s:rename-operands" % d, ok, where="%s:%s" % (b["file"], t["ln"]), detail="rename(from: temp=%s, to: destination parameter=%s)" % (is_tmp(fb, a0, tmemo), ("arg", dest) in a1d and not is_tmp(fb, a1d, tmemo)))
            # success edges: every Result-returning call that can reach the rename is checked with the rename on the Ok side
            bad = []
            for ci, ct in fl.calls():
                rt = fb.ty(b["locals"][ct["dest"]["l"]]["t"])
                if not rt.startswith("std::result::Result<") or ci == bi:
                    continue
                if bi not in cfg.reachable_strict(ci):
                    continue
                # the rename must not be reachable along the Err side: find the switch on this result
                if not _ok_side_only(fb, b, cfg, fl, ci, ct, bi):
                    bad.append(ct["fn"].split("::")[-1])
            chk.ob(ra, "%s:rename-after-success" % d, not bad, where="%s:%s" % (b["file"], t["ln"]), detail="fallible steps whose failure edge still reaches the rename: %s" % (bad or "none"))
            # steps that cannot report failure at all (return ()) but write the temp file
            for ci, ct in fl.calls():
                f = ct.get("fn", "")
                if f in fb.mir and creates_at_param(fb, f, memo):
                    rt = fb.ty(b["locals"][ct["dest"]["l"]]["t"])
                    chk.ob(ra, "%s:writer-step-reports(%s)" % (d, f.split("::")[-1]), rt.startswith("std::result::Result<"), where="%s:%s" % (b["file"], ct["ln"]),
                           detail="the step that writes the temp file returns `%s`%s" % (rt[:60], "" if rt.startswith("std::result::Result<") else ": it cannot report an I/O failure, so the rename follows unconditionally (or the process panics)"))


def _ok_side_only(fb, b, cfg, fl, ci, ct, target):
    """Is `target` unreachable from the Err side of the result of call ci?"""
    res = ct["dest"]["l"]
    # consumers: Try::branch(res) -> switch; or direct switch on discriminant of res
    for bi, bl in enumerate(b["blocks"]):
        t = bl["t"]
        if t["k"] != "switch":
            continue
        at = fl.atoms(t["op"], through_calls=True)
        if not any(a[0] == "call" and a[2] == ci for a in at):
            continue
        # which successor is the error side? the one that reaches from_residual / constructs Err / returns early
        for s in cfg.succ[bi]:
            r = cfg.reachable(s)
            errish = any(b["blocks"][x]["t"]["k"] == "call" and "from_residual" in b["blocks"][x]["t"].get("fn", "") for x in list(r)[:0]) or _first_is_err(b, s)
            if errish and target in r:
                return False
        return True
    # result never inspected: failure cannot stop the rename
    return False


def _assigns_err(b, x):
    for st in b["blocks"][x]["s"]:
        if st["k"] == "assign" and st["lhs"]["l"] == 0 and st["rv"]["k"] == "agg" and st["rv"].get("variant") == "Err":
            return True
    return False


def _first_is_err(b, s):
    """Does block s start an error edge (from_residual call / remove_file cleanup)?"""
    t = b["blocks"][s]["t"]
    if t["k"] == "call" and ("from_residual" in t.get("fn", "") or t.get("fn", "").endswith("remove_file")):
        return True
    for st in b["blocks"][s]["s"]:
        if st["k"] == "assign" and st["rv"]["k"] == "agg" and st["rv"].get("variant") == "Err":
            return True
    return False


def flushes_param(fb, fn, p, memo):
    """Does crate fn `fn` flush (with the result checked) the writer passed as parameter p on every non-error return?"""
    k = (fn, p)
    if k in memo:
        return memo[k]
    memo[k] = False
    b = fb.mir.get(fn)
    if not b:
        return False
    fl = Flow(fb, b)
    cfg = CFG(b)
    flush_blocks = []
    for bi, t in fl.calls():
        f = t.get("orig", t.get("fn", ""))
        if f.endswith("io::Write::flush") or t.get("fn", "").endswith("::flush") or t.get("fn", "").endswith("BufWriter::<W>::into_inner"):
            if ("arg", p) in fl.atoms(t["args"][0]) and fl.dest_used(bi):
                flush_blocks.append(bi)
        elif t.get("fn") in fb.mir:
            for i, a in enumerate(t["args"]):
                if ("arg", p) in fl.atoms(a, through_calls=False) and flushes_param(fb, t["fn"], i + 1, memo) and fl.dest_used(bi):
                    flush_blocks.append(bi)
    if not flush_blocks:
        return False
    err_blocks = [bi for bi in range(len(b["blocks"])) if _first_is_err(b, bi)]
    r = cfg.reachable(0, avoid=set(flush_blocks) | set(err_blocks))
    memo[k] = not any(e in r for e in cfg.exits)
    return memo[k]


def rule_flush(chk, fb, eps):
    rb = chk.rule(
        "C13.b",
        "buffered data is flushed and checked before the rename: every BufWriter created on the save path is flushed (result propagated) on every path that reaches fs::rename — by the entry point itself or by the callee it is handed to",
        floor=3,
    )
    memo = {}
    for d in eps:
        # a thin entry point that hands its path to one private body: the body is where the BufWriter lives
        unit = save_unit(fb, d, {})[0]
        chk.touch(d, unit)
        b = fb.mir[unit]
        fl = Flow(fb, b)
        cfg = CFG(b)
        news = [(bi, t) for bi, t in fl.calls(lambda t: t.get("fn", "").startswith("std::io::BufWriter::<W>::new") or t.get("fn", "").startswith("std::io::BufWriter::<W>::with_capacity"))]
        renames = [bi for bi, t in fl.calls(lambda t: t.get("fn") == "std::fs::rename")]
        for n, (bi, t) in enumerate(news):
            bw = t["dest"]["l"]
            flushers = []
            for ci, ct in fl.calls():
                for i, a in enumerate(ct["args"]):
                    at = fl.atoms(a, through_calls=False)
                    if any(x[0] == "call" and x[2] == bi for x in fl.atoms(a)) or ("p" in a and fl.deref_root(a["p"]["l"]) == bw):
                        f = ct.get("fn", "")
                        o = ct.get("orig", f)
                        if (o.endswith("io::Write::flush") or f.endswith("::flush") or f.endswith("into_inner")) and i == 0 and fl.dest_used(ci):
                            flushers.append(ci)
                        elif f in fb.mir and flushes_param(fb, f, i + 1, memo):
                            flushers.append(ci)
            ok = bool(flushers) and all(cfg.every_path_from_entry_to(r, flushers) for r in renames) and bool(renames)
            chk.ob(rb, "%s:bufwriter#%d" % (d, n), ok, where="%s:%s" % (b["file"], t["ln"]),
                   detail="BufWriter created here; %s" % ("a checked flush precedes the rename on every path" if ok else "NO checked flush precedes the rename: data still in the buffer is written by Drop, which discards the error, and the truncated temp file is renamed over the destination"))


def rule_stream_flush(chk, fb, eps):
    """Compound-file streams buffer their tail and write it in Drop, which cannot report an error: a stream that was
    written to must be flushed (result checked) before it goes out of scope."""
    rs = chk.rule(
        "C13.b.stream",
        "compound-file streams are flushed and checked: every cfb stream created on the save path and written to is flushed with the result used, after its last write, on every path",
        floor=1,
    )
    seen = set()
    for root in eps:
        for d in sorted(crate_reach(fb, root)):
            if d in seen:
                continue
            seen.add(d)
            b = fb.mir[d]
            fl = Flow(fb, b)
            creates = [(bi, t) for bi, t in fl.calls(lambda t: t.get("fn", "").endswith("::create_stream") and "cfb::" in t["fn"])]
            if not creates:
                continue
            cfg = CFG(b)
            chk.touch(d)
            for n, (bi, t) in enumerate(creates):
                name = next((a.get("s") for a in t["args"] if isinstance(a.get("s"), str)), None) or next((x[1] for a in t["args"] for x in fl.atoms(a) if x[0] == "const" and isinstance(x[1], str)), "stream#%d" % n)
                mine = lambda ct: ct["args"] and any(x[0] == "call" and x[2] == bi for x in fl.atoms(ct["args"][0]))
                writes = [ci for ci, ct in fl.calls() if mine(ct) and ct.get("orig", ct.get("fn", "")).split("::")[-1] in ("write_all", "write", "write_fmt")]
                flushes = [ci for ci, ct in fl.calls() if mine(ct) and ct.get("orig", ct.get("fn", "")).split("::")[-1] == "flush" and fl.dest_used(ci)]
                errb = {x for x in cfg.reach if (b["blocks"][x]["t"]["k"] == "call" and "from_residual" in b["blocks"][x]["t"].get("fn", "")) or _assigns_err(b, x)}
                # from a write, no successful return is reachable without passing a checked flush (error returns aside)
                ok = bool(writes) and bool(flushes) and not any(e in cfg.reachable(w, avoid=set(flushes) | errb) for w in writes for e in cfg.exits)
                chk.ob(rs, "%s:%s" % (d, name), ok, where="%s:%s" % (b["file"], t["ln"]),
                       detail="stream %r: %d write(s), %d checked flush(es); %s" % (name, len(writes), len(flushes), "every write is followed by a checked flush" if ok else "a write is not followed by a checked flush: the tail is written by Drop, which swallows the error, and the save reports success"))


def rule_results(chk, fb, eps):
    rc = chk.rule(
        "C13.c",
        "errors are returned, not dropped, not panics: on the save call graph every io::Result / XlsxError result of an operation on a real sink (file, BufWriter, caller-supplied writer, compound file) is propagated or matched; never unwrap()ed, never left unread",
        floor=10,
    )
    roots = list(eps) + [d for d, b in fb.mir.items() if b["kind"] == "Fn" and b.get("vis") == "pub" and d.startswith("writer::") and d.split("::")[-1].startswith("write_writer")]
    seen_fns = set()
    for root in roots:
        for d in sorted(crate_reach(fb, root)):
            if d in seen_fns:
                continue
            seen_fns.add(d)
            b = fb.mir[d]
            if not (d.startswith("writer::xlsx::write") or d.startswith("writer::csv::") or d.startswith("writer::xlsx::set_password") or d.startswith("helper::crypt::encrypt") or d == "writer::xlsx::make_buffer" or d.startswith("writer::driver::make_file") or d.startswith("structs::writer_manager::")):
                continue
            fl = Flow(fb, b)
            counts = {}
            for bi, t in fl.calls():
                rt = fb.ty(b["locals"][t["dest"]["l"]]["t"])
                if not rt.startswith("std::result::Result<"):
                    continue
                if not ("std::io::Error" in rt or "XlsxError" in rt or "zip::result::ZipError" in rt):
                    continue
                f = t.get("fn", "")
                if "Try>::branch" in f or "from_residual" in f or f.endswith("::map_err") or f.endswith("Result::<T, E>::unwrap"):
                    continue
                # sink type
                sink = fb.ty(b["locals"][t["args"][0]["p"]["l"]]["t"]) if t["args"] and "p" in t["args"][0] else ""
                if any(s in sink for s in INMEM) and "Stream" not in sink:
                    continue
                chk.touch(d)
                used = consumers(fb, b, fl, bi)
                if not used["checked"] and not used["unwrap"]:
                    # a best-effort cleanup on a path that returns an error anyway is an explicit, harmless discard
                    cfg = CFG(b)
                    errs = [x for x in range(len(b["blocks"])) if _first_is_err(b, x) or _assigns_err(b, x)]
                    r = cfg.reachable_strict(bi, avoid=errs)
                    if not any(e in r for e in cfg.exits) and errs:
                        used["checked"] = True
                nm = f.split("::")[-1]
                n = counts.get(nm, 0)
                counts[nm] = n + 1
                verdict = "propagated" if used["checked"] else ("unwrap" if used["unwrap"] else "dropped")
                chk.ob(rc, "%s:%s#%d" % (d, nm, n), used["checked"], where="%s:%s" % (b["file"], t["ln"]),
                       detail="result of %s on `%s` is %s" % (nm, sink[:50] or "-", verdict + ("" if used["checked"] else (": an I/O failure here panics instead of returning an error" if used["unwrap"] else ": an I/O failure here is silently ignored"))),
                       key="%s:%s#%d%s" % (d, nm, n, "" if used["checked"] else ":" + verdict))


def rule_partial_writes(chk, fb, eps):
    rp = chk.rule(
        "C13.c.partial",
        "real sinks are written with write_all: nothing on the save call graph calls the partial-write primitive io::Write::write on a file, BufWriter, compound-file stream or caller-supplied writer (a short or zero-length write would pass for success)",
        floor=1,
    )
    roots = list(eps) + [d for d, b in fb.mir.items() if b["kind"] == "Fn" and b.get("vis") == "pub" and d.startswith("writer::") and d.split("::")[-1].startswith("write_writer")]
    seen = set()
    n = 0
    for root in roots:
        for d in sorted(crate_reach(fb, root)):
            if d in seen:
                continue
            seen.add(d)
            b = fb.mir[d]
            for bi, t in fb.calls_in(b):
                f = t.get("orig", t.get("fn", ""))
                if f == "std::io::Write::write" or t.get("fn", "").endswith("as std::io::Write>::write"):
                    sink = fb.ty(b["locals"][t["args"][0]["p"]["l"]]["t"]) if t["args"] and "p" in t["args"][0] else ""
                    if any(s_ in sink for s_ in INMEM) and "Stream" not in sink:
                        continue
                    chk.touch(d)
                    chk.ob(rp, "%s:write" % d, False, where="%s:%s" % (b["file"], t["ln"]), detail="partial write on `%s`" % sink[:60])
                    n += 1
    chk.ob(rp, "no-partial-writes", n == 0, where="src/writer", detail="%d function(s) on the save call graph inspected; partial writes on real sinks: %d" % (len(seen), n))


def consumers(fb, b, fl, bi):
    """How is the result of the call in block bi consumed?"""
    res = b["blocks"][bi]["t"]["dest"]["l"]
    out = {"checked": False, "unwrap": False}
    if res == 0:
        out["checked"] = True
        return out
    # follow moves of the result local
    locs = {res}
    changed = True
    while changed:
        changed = False
        for bl in b["blocks"]:
            for s in bl["s"]:
                if s["k"] == "assign" and s["rv"]["k"] == "use" and "p" in s["rv"]["op"] and s["rv"]["op"]["p"]["l"] in locs and not s["rv"]["op"]["p"].get("pr") and not s["lhs"].get("pr"):
                    if s["lhs"]["l"] not in locs:
                        locs.add(s["lhs"]["l"])
                        changed = True
    if 0 in locs:
        out["checked"] = True
    for bl in b["blocks"]:
        t = bl["t"]
        for s in bl["s"]:
            if s["k"] == "assign" and s["rv"]["k"] == "discr" and s["rv"]["place"]["l"] in locs:
                out["checked"] = True
        if t["k"] == "call":
            for a in t["args"]:
                if "p" in a and a["p"]["l"] in locs:
                    f = t.get("fn", "")
                    if f.endswith("Result::<T, E>::unwrap") or f.endswith("Result::<T, E>::expect"):
                        out["unwrap"] = True
                    elif "Try>::branch" in f or f.endswith("::map_err") or f.endswith("::is_err") or f.endswith("::is_ok") or f.endswith("::ok") or f.endswith("and_then"):
                        out["checked"] = True
                    else:
                        out["checked"] = True  # passed on to another function
    return out


def run(chk, fb, tier):
    eps = entry_points(fb)
    chk.rule("C13.anchor", "save entry points located by role (pub fns of writer:: with a path-like parameter that reach a file-creating call)", floor=6)
    for d in eps:
        chk.ob("C13.anchor", "entry:%s" % d, True, where=fb.loc(d), nontrivial=False)
    rule_temp_rename(chk, fb, eps)
    rule_tmp_names(chk, fb, eps, "C13.a.name")
    rule_flush(chk, fb, eps)
    rule_stream_flush(chk, fb, eps)
    rule_results(chk, fb, eps)
    rule_partial_writes(chk, fb, eps)
    chk.assume("fs::rename within one directory replaces the destination atomically (POSIX rename)")
    chk.assume("BufWriter::drop flushes but discards errors; writes into Cursor<Vec<u8>> cannot fail")
    chk.note("not decided: process kills at arbitrary instants (crash timing), byte offsets of failing writes")
