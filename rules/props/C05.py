"""C05 — styles survive save/reload; interning never merges styles. Clauses a–e (DESIGN.md section 4)."""
import hirq
from cfg import CFG
from e2 import fields_read
from mirq import Flow

STYLESHEET = "structs::stylesheet::Stylesheet"
STYLE = "structs::style::Style"
# (struct, field) that are deliberately not part of the identity, with the reason
KEY_EXCEPTIONS = {
    ("structs::numbering_format::NumberingFormat", "number_format_id"): "the id is what interning assigns; identity is the format code",
    ("structs::numbering_format::NumberingFormat", "is_build_in"): "a flag derived from the id range, not part of the format",
    ("structs::column::Column", "col_num"): "position, compared separately by the column-merge guard",
    ("structs::column::Column", "style"): "compared separately by the column-merge guard (style equality)",
    ("structs::column::Column", "auto_width"): "not persisted",
}


def key_functions(fb):
    """All content-key functions of the crate: methods named get_hash_* on local structs that return String/u64/&str."""
    out = []
    for d, b in sorted(fb.mir.items()):
        nm = d.split("::")[-1]
        adt = b.get("self_ty")
        if nm in ("get_hash_code", "get_hash_u64", "get_hash_string") and adt in fb.adts and fb.adts[adt]["kind"] == "struct" and b["kind"] == "AssocFn":
            out.append((d, adt))
    return out


CUTS = ("truncate", "split_at", "take", "take_while", "skip", "get", "get_unchecked", "chunks", "first", "last", "split_off", "drain", "nth")


def truncations(fb, d):
    """Operations in a key function (and its closures) that keep only a part of a string / byte sequence:
    range indexing (`&x[..n]`), get(range), take(n), truncate, split_at ..."""
    out = []
    for bd in [d] + [c for c in fb.mir if c.startswith(d + "::{closure")]:
        b = fb.mir[bd]
        for bi, t in fb.calls_in(b):
            f = t.get("fn", "")
            o = t.get("orig", f)
            nm = f.split("::")[-1]
            recv_ty = fb.ty(b["locals"][t["args"][0]["p"]["l"]]["t"]) if t["args"] and "p" in t["args"][0] else ""
            stringish = any(x in recv_ty for x in ("str", "String", "[u8]", "Vec<u8>", "Chars", "Bytes"))
            if (o.endswith("ops::Index::index") or o.endswith("ops::IndexMut::index_mut") or "SliceIndex" in f) and any("Range" in fb.ty(i) for i in t.get("targs", [])):
                out.append(("range index", t.get("ln")))
            elif nm in CUTS and stringish:
                out.append((nm, t.get("ln")))
    return out


def rule_coverage(chk, fb):
    ra = chk.rule("C05.a", "key covers every field: each content-key function reads (directly or through the keys it calls) every field of its struct, listed exceptions aside; a derived PartialEq counts as full coverage", floor=16)
    for d, adt in key_functions(fb):
        chk.touch(d)
        fields = set(fb.struct_fields(adt))
        read = fields_read(fb, d, adt)
        exc = {f for (a, f) in KEY_EXCEPTIONS if a == adt}
        missing = sorted(fields - read - exc)
        chk.ob(ra, "%s::%s" % (adt.split("::")[-1], d.split("::")[-1]), not missing, where=fb.loc(d), detail="%d fields, read %d, exceptions %s, missing %s" % (len(fields), len(read & fields), sorted(exc), missing))
    # every field contributes whatever the other fields hold
    rc = chk.rule(
        "C05.a.always",
        "each field contributes to the key unconditionally: in every content-key function, every field is read on some site that is not guarded by a condition over OTHER fields of the struct (a field may of course be tested for its own presence)",
        floor=35,
    )
    for d, adt in key_functions(fb):
        b = fb.mir[d]
        fl = Flow(fb, b)
        cfg = CFG(b)
        exc = {f for (a, f) in KEY_EXCEPTIONS if a == adt}
        sites = {}
        for bi, bl in enumerate(b["blocks"]):
            places = []
            for st in bl["s"]:
                if st["k"] == "assign":
                    from e2 import _places_of_rv

                    places += _places_of_rv(st["rv"])
            t = bl["t"]
            if t["k"] == "call":
                places += [a["p"] for a in t.get("args", []) if "p" in a]
            elif t["k"] == "switch" and "p" in t["op"]:
                places.append(t["op"]["p"])
            for p_ in places:
                for e in p_.get("pr", []):
                    if isinstance(e, dict) and e.get("of") == adt and "f" in e:
                        sites.setdefault(e["f"], set()).add(bi)
        for f, blocks in sorted(sites.items()):
            if f in exc:
                continue
            free = False
            why = []
            for bi in sorted(blocks):
                others = set()
                for x in cfg.control_deps_transitive(bi):
                    tt = b["blocks"][x]["t"]
                    if tt["k"] != "switch":
                        continue
                    others |= {a[2] for a in fl.atoms(tt["op"]) if a[0] == "field" and a[1] == adt and a[2] != f}
                if not others:
                    free = True
                    break
                why.append(sorted(others))
            chk.ob(rc, "%s::%s:%s" % (adt.split("::")[-1], d.split("::")[-1], f), free, where=fb.loc(d),
                   detail="read unconditionally" if free else "every read of `%s` is guarded by a condition over %s: two values that differ only in `%s` get the same key whenever that condition is false" % (f, why[0] if why else "?", f))
    # no lossy rendering inside a key
    rl = chk.rule(
        "C05.b.lossless",
        "key components are rendered without loss: no placeholder of a format template inside a content-key function carries a precision (`{:.2}` truncates numbers and strings, so distinct values share a key)",
        floor=16,
    )
    for d, adt in key_functions(fb):
        h = fb.hir.get(d)
        if not h:
            continue
        specs = hirq.format_specs(h["body"])
        bad = [ln for o, ln in specs if o is None or (o & 4)]
        # ... and no part of a value is cut off before it is digested / rendered
        cuts = truncations(fb, d)
        chk.ob(rl, "%s::%s" % (adt.split("::")[-1], d.split("::")[-1]), not bad and not cuts, where="%s:%s" % (h["file"], bad[0] if bad else (cuts[0][1] if cuts else h.get("line", ""))),
               detail="%d placeholder(s), with a precision: %d; truncating operations: %s" % (len(specs), len(bad), [c[0] for c in cuts] or "none"))
    # which key function does each interning table use? (role: compared inside the scan loop of set_style)
    rb = chk.rule("C05.a.use", "each interning table compares with the full key: the scan loop of every component table's set_style compares the key function of the element type on both operands; the whole-style lookup compares Style values whose equality is derived over all fields", floor=5)
    for d, b in sorted(fb.mir.items()):
        if d.split("::")[-1] != "set_style" or b["kind"] != "AssocFn" or not b.get("self_ty", "").startswith("structs::"):
            continue
        adt = b["self_ty"]
        fl = Flow(fb, b)
        cfg = CFG(b)
        from props.C04 import scan_scopes

        _, loops, scan_calls = scan_scopes(fb, d, b, fl, cfg)
        keys_in_loop = sorted({t["fn"] for t in scan_calls if t.get("fn", "").split("::")[-1].startswith("get_hash_")})
        keys_out = sorted({t["fn"] for bi, t in fl.calls() if bi not in loops and t.get("fn", "").split("::")[-1].startswith("get_hash_")})
        eqs = [t for t in scan_calls if t.get("orig", t.get("fn", "")).endswith("PartialEq::eq") or ("PartialEq" in t.get("fn", "") and t["fn"].endswith("::eq"))]
        chk.touch(d)
        if adt == STYLESHEET:
            derived = fb.has_derive(STYLE, "std::cmp::PartialEq")
            style_eq = [t for t in eqs if STYLE in (t.get("impl_self", "") + t.get("fn", "")) or any(STYLE in fb.ty(i) for i in t.get("targs", []))]
            chk.ob(rb, "Stylesheet::set_style", derived and bool(style_eq), where=fb.loc(d), detail="whole-style lookup compares Style by its derived PartialEq (all fields): derived=%s, comparison in the scan loop: %s" % (derived, bool(style_eq)))
            continue
        if not keys_in_loop and not keys_out:
            continue
        ok = bool(keys_in_loop) and set(k.rsplit("::", 1)[0] for k in keys_in_loop) == set(k.rsplit("::", 1)[0] for k in keys_out or keys_in_loop)
        chk.ob(rb, "%s::set_style" % adt.split("::")[-1], ok, where=fb.loc(d), detail="key of the candidate: %s; key of the scanned elements: %s" % ([k.split("::")[-2] + "::" + k.split("::")[-1] for k in keys_out], [k.split("::")[-2] + "::" + k.split("::")[-1] for k in keys_in_loop]))


def classify(fb, h, n, lets, depth=0):
    """Width class of a key component expression: ('fixed',) | ('finite', frozenset) | ('var', description)."""
    n = hirq.strip(n)
    k = n.get("k")
    if k == "path" and n.get("lid") in lets and depth < 4:
        return classify(fb, h, lets[n["lid"]], lets, depth + 1)
    if k == "lit" and n.get("lt") == "str":
        return ("finite", frozenset([n["v"]]))
    if k == "mcall" or k == "call":
        d = n.get("def", "")
        nm = d.split("::")[-1]
        if nm == "get_hash_code":
            return ("fixed",)
        if nm == "from" and n.get("args") and hirq.lit_value(n["args"][0]) is not None:
            return ("finite", frozenset([hirq.lit_value(n["args"][0])]))
        if nm in ("into", "to_string", "to_owned", "clone", "as_str", "as_ref", "deref") and (n.get("recv") or n.get("args")):
            return classify(fb, h, n.get("recv") or n["args"][0], lets, depth + 1)
        if nm in ("map_or", "unwrap_or", "unwrap_or_else", "map_or_else"):
            parts = [classify(fb, h, a, lets, depth + 1) for a in n.get("args", [])]
            return merge(parts)
        if nm in ("get_hash_string", "get_value_string", "get_value_str"):
            rt = fb.ty(n.get("rt", 0)).replace("&", "").replace("mut ", "")
            if "BooleanValue" in rt:
                return ("finite", frozenset(["1", "0", "true", "false", "empty!!"]) - frozenset(["true", "false"]))
            if "EnumValue<" in rt:
                inner = rt[rt.index("EnumValue<") + 10 : -1]
                lits = enum_strings(fb, inner)
                if lits:
                    return ("finite", frozenset(lits) | {"empty!!"})
            return ("var", "%s of %s" % (nm, rt.split("::")[-1]))
        return ("var", nm)
    if k == "closure":
        return classify(fb, h, n["body"], lets, depth + 1)
    if k == "match":
        return merge([classify(fb, h, a["body"], lets, depth + 1) for a in n["arms"]])
    if k == "block" and n.get("expr"):
        return classify(fb, h, n["expr"], lets, depth + 1)
    if k == "if":
        return merge([classify(fb, h, n["then"], lets, depth + 1), classify(fb, h, n["else"], lets, depth + 1)] if n.get("else") else [("var", "if")])
    if k == "field":
        return ("var", "field %s" % n.get("name"))
    return ("var", str(k))


def merge(parts):
    if any(p[0] == "var" for p in parts):
        return [p for p in parts if p[0] == "var"][0]
    lits = set()
    fixed = False
    for p in parts:
        if p[0] == "fixed":
            fixed = True
        else:
            lits |= set(p[1])
    if fixed and not lits:
        return ("fixed",)
    if fixed:
        # 32 hex digits or one of the literals: unambiguous iff no literal is made of hex digits only
        if all(any(c not in "0123456789abcdef" for c in l) for l in lits):
            return ("fixed",)
        return ("var", "hash or hex-like literal")
    return ("finite", frozenset(lits))


_enum_memo = {}


def enum_strings(fb, enum_path):
    """String literals an EnumTrait::get_value_string impl can return for this enum."""
    if enum_path in _enum_memo:
        return _enum_memo[enum_path]
    out = set()
    for d, h in fb.hir.items():
        if d.endswith("::get_value_string") and h.get("self_ty") == enum_path:
            for x in hirq.walk(h["body"]):
                if x.get("k") == "lit" and x.get("lt") == "str":
                    out.add(x["v"])
    _enum_memo[enum_path] = out
    return out


def prefix_free(lits):
    l = sorted(lits)
    return not any(a != b and b.startswith(a) for a in l for b in l)


def rule_ambiguity(chk, fb):
    rb = chk.rule("C05.b", "keys are unambiguous: within every run of key components concatenated without a delimiter at most one is of variable width; the others are fixed-width digests or drawn from finite sets no element of which can be continued into another by the text that may follow", floor=14)
    for d, adt in key_functions(fb):
        h = fb.hir.get(d)
        if not h:
            continue
        lets = {y["pat"].get("lid"): hirq.strip(y["init"]) for y in hirq.walk(h["body"]) if y.get("k") == "let" and y.get("init") and y["pat"].get("k") == "bind"}
        # locals built by appending fixed-width pieces only (String::new() + write!(local, "{}", digest) in a loop)
        appended = {}
        for x in hirq.walk(h["body"]):
            if x.get("mac") and x["mac"][0] in ("write",):
                pieces = hirq.format_node(x)
                tgt = None
                for c in hirq.calls(x):
                    if c.get("k") == "mcall" and c.get("name") == "write_fmt":
                        tgt = hirq.strip(c["recv"]).get("lid")
                if tgt is not None and pieces:
                    appended.setdefault(tgt, []).extend(v for k, v in pieces if k == "arg")
        for lid, parts in appended.items():
            init = lets.get(lid)
            if init is not None and init.get("k") == "call" and init.get("def", "").endswith("String::new") and all(classify(fb, h, p_, lets)[0] == "fixed" for p_ in parts):
                lets[lid] = {"k": "mcall", "def": "x::get_hash_code", "args": [], "recv": None}
        n_templates = 0
        for x in hirq.walk(h["body"]):
            if not (x.get("mac") and x["mac"][0] == "format"):
                continue
            pieces = hirq.format_node(x)
            if not pieces or sum(1 for k, _ in pieces if k == "arg") < 2:
                continue
            n_templates += 1
            # segments between non-empty literal delimiters
            segs, cur = [], []
            for kind, v in pieces:
                if kind == "lit" and v:
                    if cur:
                        segs.append(cur)
                    cur = []
                elif kind == "arg":
                    cur.append(v)
            if cur:
                segs.append(cur)
            for si, seg in enumerate(segs):
                cls = [classify(fb, h, v, lets) if v is not None else ("var", "?") for v in seg]
                vars_ = [i for i, c in enumerate(cls) if c[0] == "var"]
                ok = len(vars_) <= 1
                why = "%d component(s): %s" % (len(seg), [c[0] if c[0] != "var" else "var(%s)" % c[1] for c in cls])
                if ok:
                    # finite sets: an element that is a proper prefix of another must not be continuable by what follows
                    for i, c in enumerate(cls[:-1]):
                        if c[0] != "finite":
                            continue
                        nxt = cls[i + 1]
                        for a in c[1]:
                            for b_ in c[1]:
                                if a != b_ and b_.startswith(a):
                                    rem = b_[len(a):]
                                    if nxt[0] == "var":
                                        ok, why = False, "%r/%r followed by variable text" % (a, b_)
                                    elif nxt[0] == "fixed" and all(ch in "0123456789abcdef" for ch in rem[:1]):
                                        ok, why = False, "%r/%r followed by a hex digest" % (a, b_)
                                    elif nxt[0] == "finite" and any(n_.startswith(rem) or rem.startswith(n_) for n_ in nxt[1] if n_):
                                        ok, why = False, "%r/%r continuable by the next component" % (a, b_)
                chk.touch(d)
                chk.ob(rb, "%s::%s:run#%d" % (adt.split("::")[-1], d.split("::")[-1], si), ok, where="%s:%s" % (h["file"], x["ln"]), detail=why,
                       key="%s::%s:run#%d%s" % (adt.split("::")[-1], d.split("::")[-1], si, "" if ok else ":ambiguous"))


def rule_wiring(chk, fb):
    rc = chk.rule("C05.c", "component ids are wired consistently: the id returned by table T's set_style is stored with the setter of T's id field, and reconstruction indexes table T with the getter of that same field", floor=8)
    rd = chk.rule("C05.d", "apply flags agree: the writer side sets apply* exactly under the presence test of its component, and reconstruction consults the same flag before using that component", floor=6)
    d = STYLESHEET + "::set_style"
    g = STYLESHEET + "::get_style_by_cell_format"
    if d not in fb.mir or g not in fb.mir:
        chk.ob(rc, "anchors", False, detail="Stylesheet::set_style / get_style_by_cell_format not found")
        return
    b = fb.mir[d]
    fl = Flow(fb, b)
    cfg = CFG(b)
    chk.touch(d, g)
    CF = "structs::cell_format::CellFormat"
    writes = {}  # table field -> cell format id setter
    for bi, t in fl.calls(lambda t: fb.mir.get(t.get("fn", ""), {}).get("self_ty") == CF and t["fn"].split("::")[-1].startswith("set_") and t["fn"].endswith("_id")):
        at = fl.atoms(t["args"][1])
        tabs = sorted({a[2] for a in at if a[0] == "field" and a[1] == STYLESHEET})
        calls = [a for a in at if a[0] == "call" and a[1].endswith("::set_style")]
        if calls:
            writes[t["fn"].split("::")[-1][4:]] = tabs
    gb = fb.mir[g]
    gfl = Flow(fb, gb)
    reads = {}
    for bi, t in gfl.calls():
        f = t.get("fn", "")
        if f.endswith("::get") and len(t["args"]) == 2:
            at_tab = gfl.atoms(t["args"][0])
            at_idx = gfl.atoms(t["args"][1])
            tabs = sorted({a[2] for a in at_tab if a[0] == "field" and a[1] == STYLESHEET})
            ids = sorted({a[1].split("::")[-1][4:] for a in at_idx if a[0] == "call" and fb.mir.get(a[1], {}).get("self_ty") == CF and a[1].split("::")[-1].startswith("get_") and a[1].endswith("_id")})
            for i in ids:
                reads[i] = tabs
    for idf in sorted(set(writes) | set(reads)):
        if idf == "format_id":
            continue
        w, r = writes.get(idf), reads.get(idf)
        ok = w is not None and r is not None and w == r and len(w) == 1
        chk.ob(rc, "id:%s" % idf, ok, where=fb.loc(d), detail="written from table %s; read back by indexing table %s" % (w, r))
        # the name of the id agrees with the table (font_id <-> fonts)
        if w and len(w) == 1:
            stem = idf[:-3].replace("number_format", "numbering_format")
            chk.ob(rc, "id-name:%s" % idf, w[0].startswith(stem[:4]), where=fb.loc(d), detail="id field %s is filled from table %s" % (idf, w[0]))
    # apply flags
    comps = {}
    for bi, t in fl.calls(lambda t: fb.mir.get(t.get("fn", ""), {}).get("self_ty") == CF and t["fn"].split("::")[-1].startswith("set_apply_")):
        comp = t["fn"].split("::")[-1][len("set_apply_"):]
        guards = set()
        for x in cfg.control_deps_transitive(bi):
            at = fl.atoms(b["blocks"][x]["t"]["op"])
            guards |= {a[1].split("::")[-1] for a in at if a[0] == "call" and fb.mir.get(a[1], {}).get("self_ty") == STYLE and a[1].split("::")[-1].startswith("get_")}
        comps[comp] = guards
    gcfg = CFG(gb)
    for comp, guards in sorted(comps.items()):
        want = {"get_" + comp, "get_" + comp.replace("number_format", "numbering_format"), "get_" + comp.replace("border", "borders")}
        okw = bool(guards & want) and len(guards) == 1
        # reader side: use of the component is control-dependent on get_apply_<comp>
        used = False
        for bi, t in gfl.calls(lambda t: fb.mir.get(t.get("fn", ""), {}).get("self_ty") == STYLE and t["fn"].split("::")[-1].startswith("set_")):
            nm = t["fn"].split("::")[-1][4:]
            if nm not in (comp, comp.replace("number_format", "numbering_format"), comp.replace("border", "borders")):
                continue
            flags = set()
            for x in gcfg.control_deps_transitive(bi):
                at = gfl.atoms(gb["blocks"][x]["t"]["op"])
                flags |= {a[1].split("::")[-1] for a in at if a[0] == "call" and "apply" in a[1].split("::")[-1]}
            if any(f.endswith("apply_" + comp) for f in flags) and not any(("apply_" in f and not f.endswith("apply_" + comp)) for f in flags):
                used = True
        chk.ob(rd, "apply:%s" % comp, okw and used, where=fb.loc(d), detail="writer sets apply_%s under %s; reconstruction guards the component with its own flag: %s" % (comp, sorted(guards), used))


def _cond_fields(fb, fl, b, blocks, adt):
    """Fields of `adt` that the branch conditions of `blocks` depend on (directly or through getters)."""
    from e2 import fields_read

    out = set()
    for x in blocks:
        t = b["blocks"][x]["t"]
        if t["k"] != "switch":
            continue
        for a in fl.atoms(t["op"]):
            if a[0] == "field" and a[1] == adt:
                out.add(a[2])
            elif a[0] == "call" and fb.mir.get(a[1], {}).get("self_ty") == adt:
                out |= fields_read(fb, a[1], adt)
    return out


def _loop_carried(b, l, loop_body):
    """Is the value in local l (or a local it is copied / dereferenced into) re-assigned inside the loop?"""
    group = {l}
    changed = True
    while changed:
        changed = False
        for bl in b["blocks"]:
            for st in bl["s"]:
                if st["k"] == "assign" and not st["lhs"].get("pr") and st["lhs"]["l"] not in group:
                    rv = st["rv"]
                    src = rv.get("op", {}).get("p", {}).get("l") if rv["k"] in ("use", "cast") else (rv["place"]["l"] if rv["k"] == "ref" else None)
                    if src in group:
                        group.add(st["lhs"]["l"])
                        changed = True
    for bi, bl in enumerate(b["blocks"]):
        if bi not in loop_body:
            continue
        for st in bl["s"]:
            if st["k"] == "assign" and not st["lhs"].get("pr") and st["lhs"]["l"] in group:
                rv = st["rv"]
                src = rv.get("op", {}).get("p", {}).get("l") if rv["k"] in ("use", "cast") else (rv["place"]["l"] if rv["k"] == "ref" else None)
                if src not in group:
                    return True
        t = bl["t"]
        if t["k"] == "call" and t.get("dest", {}).get("l") in group:
            return True
    return False


def rule_run_merge(chk, fb):
    """Adjacent <col> entries are written as one run min..max carrying the attributes of the first: two columns may
    be merged only if everything that is written for the run was compared equal."""
    from cfg import CFG
    from mirq import Flow
    from e2 import fields_read

    COL = "structs::column::Column"
    r = chk.rule(
        "C05.e.merge",
        "run-length merging of columns: the step that extends a <col min..max> run is dominated by equality tests that together cover every Column field the run writer emits (no path merges two columns without comparing a written field)",
        floor=3,
    )
    fn = next((d for d, b in fb.mir.items() if b.get("self_ty", "").endswith("::Columns") and b["kind"] == "AssocFn" and any(t.get("fn", "").endswith("Columns::write_to_column") for _, t in fb.calls_in(b))), None)
    if not fn:
        chk.ob(r, "anchor", False, detail="the function that groups columns into runs (calls write_to_column) was not found")
        return
    b = fb.mir[fn]
    chk.touch(fn)
    fl = Flow(fb, b)
    cfg = CFG(b)
    emit = next(t.get("fn") for _, t in fb.calls_in(b) if t.get("fn", "").endswith("write_to_column"))
    written = fields_read(fb, emit, COL)
    # the `max` local: 4th argument of the emit call is &max
    max_locals = set()

    def root(l, depth=0):
        for bl in b["blocks"]:
            for st in bl["s"]:
                if st["k"] == "assign" and st["lhs"]["l"] == l and not st["lhs"].get("pr") and st["rv"]["k"] == "ref":
                    pl = st["rv"]["place"]
                    if not pl.get("pr"):
                        return pl["l"]
                    if depth < 4:
                        return root(pl["l"], depth + 1)
        return None

    for bi, t in fl.calls(lambda t: t.get("fn") == emit):
        if len(t["args"]) > 3 and "p" in t["args"][3]:
            x = root(t["args"][3]["p"]["l"])
            if x is not None:
                max_locals.add(x)
    merges = []
    for bi, bl in enumerate(b["blocks"]):
        for st in bl["s"]:
            if st["k"] == "assign" and st["rv"]["k"] == "bin" and st["rv"]["op"] in ("AddWithOverflow", "Add") and st["rv"]["a"].get("p", {}).get("l") in max_locals and st["rv"]["b"].get("i") == 1:
                # the increment that is stored back (not the `max + 1` of the adjacency test)
                tgt = b["blocks"][bi]["t"]
                nxt = tgt.get("t") if tgt["k"] == "assert" else None
                stored = False
                for bj in ([bi] + ([nxt] if nxt is not None else [])):
                    for s2 in b["blocks"][bj]["s"]:
                        if s2["k"] == "assign" and s2["lhs"]["l"] in max_locals and not s2["lhs"].get("pr"):
                            stored = True
                if stored:
                    merges.append(bi)
    if not merges:
        chk.ob(r, "%s:merge-step" % fn, False, where=fb.loc(fn), detail="no `max += 1` merge step found in the run grouping function")
        return
    for m in merges:
        doms = [x for x in cfg.reach if cfg.dominates(x, m) and b["blocks"][x]["t"]["k"] == "switch"]
        # `let ok = a && b && c; if ok {..}`: the tests that feed a boolean local count too - the merge needs the local to
        # be true, so every path to it passes a definition of the local that is not the constant `false`, and whatever
        # dominates all those definitions
        for x in list(doms):
            op = b["blocks"][x]["t"]["op"]
            if "p" not in op or op["p"].get("pr"):
                continue
            L = op["p"]["l"]
            for _hop in range(4):  # the tested local may be a copy of the one the conjunction is built in
                cps = [st["rv"]["op"]["p"]["l"] for bl2 in b["blocks"] for st in bl2["s"] if st["k"] == "assign" and st["lhs"]["l"] == L and not st["lhs"].get("pr") and st["rv"]["k"] == "use" and "p" in st["rv"]["op"] and not st["rv"]["op"]["p"].get("pr")]
                alld = [1 for bl2 in b["blocks"] for st in bl2["s"] if st["k"] == "assign" and st["lhs"]["l"] == L and not st["lhs"].get("pr")]
                if len(cps) == 1 and len(alld) == 1:
                    L = cps[0]
                else:
                    break
            live_defs = []
            for bi2, bl2 in enumerate(b["blocks"]):
                for st in bl2["s"]:
                    if st["k"] == "assign" and st["lhs"]["l"] == L and not st["lhs"].get("pr"):
                        rv = st["rv"]
                        is_false = rv["k"] == "use" and "p" not in rv["op"] and rv["op"].get("i", rv["op"].get("c")) in (0, False, "false")
                        if not is_false:
                            live_defs.append(bi2)
                if bl2["t"]["k"] == "call" and bl2["t"].get("dest", {}).get("l") == L:
                    live_defs.append(bi2)
            if live_defs:
                common = [y for y in cfg.reach if b["blocks"][y]["t"]["k"] == "switch" and all(cfg.dominates(y, d_) for d_ in live_defs)]
                doms += [y for y in common if y not in doms]
        # only equality tests count: the switch operand derives from a PartialEq::eq call
        eq_blocks = []
        for x in doms:
            at = fl.atoms(b["blocks"][x]["t"]["op"], through_calls=False)
            if any(a[0] == "call" and a[1].endswith("::eq") for a in at):
                eq_blocks.append(x)
        compared = _cond_fields(fb, fl, b, eq_blocks, COL)
        # the compared values are those of the CURRENT run head and candidate: they are computed inside the loop
        loop_body = set()
        for t_, h_ in cfg.back_edges():
            nl = cfg.natural_loop(t_, h_)
            if m in nl:
                loop_body |= nl
        stale = []
        for x in eq_blocks:
            for a in fl.atoms(b["blocks"][x]["t"]["op"]):
                if a[0] == "call" and fb.mir.get(a[1], {}).get("self_ty") == COL and a[2] not in loop_body and not _loop_carried(b, b["blocks"][a[2]]["t"]["dest"]["l"], loop_body):
                    stale.append("%s@%s:%s" % (a[1].split("::")[-1], b["file"], b["blocks"][a[2]]["t"].get("ln")))
        chk.ob(r, "%s:merge compares current values" % fn, not stale, where=fb.loc(fn),
               detail="operands of the merge tests are computed inside the loop" if not stale else "operand(s) computed once outside the loop (%s): after the first run they describe a column that is no longer the head of the run" % sorted(set(stale)))
        for f in sorted(written):
            where = "%s:%s" % (b["file"], b["blocks"][m]["t"].get("ln", b["line"]))
            chk.ob(r, "%s:merge requires equal `%s`" % (fn, f), f in compared, where=where,
                   detail="run writer emits Column.%s; equality tests dominating the merge step cover %s" % (f, sorted(compared)))


def rule_loop_emits(chk, fb):
    """Nothing is dropped by the sheet writer's loops: each row / cell met is written on every path through the loop
    body, unless the bypass is decided by conditions that look at every persisted field."""
    from cfg import CFG
    from mirq import Flow
    from e2 import fields_read

    r = chk.rule(
        "C05.f.rows",
        "no row/cell is dropped: in the sheet writer every path through the row loop (cell loop) body reaches the element's write_to, or the bypass is control-dependent only on conditions that read every field write_to persists",
        floor=2,
    )
    fn = "writer::xlsx::worksheet::write"
    b = fb.mir.get(fn)
    if not b:
        chk.ob(r, "anchor", False, detail="sheet writer not found")
        return
    chk.touch(fn)
    fl = Flow(fb, b)
    cfg = CFG(b)
    loops = [(t, h, cfg.natural_loop(t, h)) for t, h in cfg.back_edges()]
    for adt, key in (("structs::row::Row", "row_num"), ("structs::cell::Cell", "coordinate")):
        short = adt.split("::")[-1]
        W = [bi for bi, t in fl.calls(lambda t, a=adt: fb.mir.get(t.get("fn", ""), {}).get("self_ty") == a and t["fn"].endswith("::write_to"))]
        if not W:
            chk.ob(r, "%s:written" % short, False, where=fb.loc(fn), detail="no call of %s::write_to in the sheet writer" % short)
            continue
        wfn = b["blocks"][W[0]]["t"]["fn"]
        cands = [(len(n), t, h, n) for t, h, n in loops if all(w in n for w in W)]
        if not cands:
            chk.ob(r, "%s:written" % short, False, where=fb.loc(fn), detail="%s::write_to is not called from a loop" % short)
            continue
        head = min(cands)[2]
        body = set().union(*[n for t, h, n in loops if h == head])
        tails = [t for t, h, n in loops if h == head]
        # is there a path head -> tail inside the loop that avoids every write?
        seen = set()
        work = [head]
        while work:
            x = work.pop()
            if x in seen or x in W or x not in body:
                continue
            seen.add(x)
            for s_ in cfg.succ[x]:
                if s_ == head:
                    continue
                work.append(s_)
        bypass = any(t in seen for t in tails)
        if not bypass:
            chk.ob(r, "%s:written" % short, True, where=fb.loc(fn), detail="every path through the %s loop body passes %s::write_to" % (short.lower(), short))
            continue
        deps = set()
        for w in W:
            deps |= {x for x in cfg.control_deps_transitive(w) if x in body}
        need = fields_read(fb, wfn, adt) - {key}
        have = _cond_fields(fb, fl, b, deps, adt)
        miss = sorted(need - have)
        chk.ob(r, "%s:written" % short, not miss, where=fb.loc(fn),
               detail="some path through the %s loop skips %s::write_to; the deciding conditions read %s but write_to persists also %s" % (short.lower(), short, sorted(have), miss))


def rule_skip_test(chk, fb):
    """A cell without a value is written only if its style is not `empty`: that test has to look at everything the
    stylesheet would persist for the style."""
    from e2 import direct_fields

    r = chk.rule(
        "C05.g",
        "the skip test sees the whole style: every Style field that interning a style into the stylesheet reads is also read by the emptiness test the cell writer uses to drop value-less cells",
        floor=1,
    )
    CELL = "structs::cell::Cell"
    w = fb.mir.get(CELL + "::write_to")
    if not w:
        chk.ob(r, "anchor", False, detail="Cell::write_to not found")
        return
    preds = sorted({t["fn"] for _, t in fb.calls_in(w) if fb.mir.get(t.get("fn", ""), {}).get("self_ty") == STYLE and fb.ty(fb.mir[t["fn"]]["locals"][0]["t"]) == "bool"})
    persisted = set()
    roots = [d for d in fb.mir if d == STYLESHEET + "::set_style"]
    for d in fb.reachable_from(roots):
        b = fb.mir.get(d)
        if b and (b.get("self_ty") or "").startswith("structs::") and b.get("self_ty") != STYLE:
            persisted |= direct_fields(b, STYLE)
        elif b and b.get("self_ty") == STYLE and d.split("::")[-1].startswith("get_") :
            persisted |= direct_fields(b, STYLE) if any(c in fb.reachable_from(roots) for c in [d]) else set()
    persisted -= {"format_id"}
    for pfn in preds:
        read = fields_read(fb, pfn, STYLE)
        miss = sorted(persisted - read)
        chk.touch(pfn)
        chk.ob(r, "%s" % pfn.split("::", 2)[-1], not miss, where=fb.loc(pfn), detail="interning persists %s; the test reads %s%s" % (sorted(persisted), sorted(read), "; a style that only has %s is treated as empty and its cell is dropped" % miss if miss else ""))


def rule_eq_chain(chk, fb):
    """The whole-style lookup compares Style values with `==`: that only distinguishes what the equality of every
    component looks at, all the way down."""
    import re

    r = chk.rule(
        "C05.a.eq",
        "equality is total below Style: every crate struct reachable from Style through field types either derives PartialEq or has a hand-written eq that reads every one of its fields",
        floor=15,
    )
    seen = set()
    work = [STYLE]
    while work:
        adt = work.pop()
        if adt in seen or adt not in fb.adts:
            continue
        seen.add(adt)
        ad = fb.adts[adt]
        ftys = [f["ty"] for v in ad["variants"] for f in v["fields"]]
        for ty in ftys:
            for m in re.findall(r"[A-Za-z_][A-Za-z0-9_:]*", ty):
                if m in fb.adts and m not in seen:
                    work.append(m)
        if ad["kind"] != "struct":
            continue
        derived = fb.has_derive(adt, "std::cmp::PartialEq")
        manual = [d for d in fb.mir if d.startswith("<%s as std::cmp::PartialEq" % adt) and d.endswith("::eq")]
        if derived:
            ok, why = True, "derived"
        elif manual:
            fields = set(fb.struct_fields(adt))
            read = fields_read(fb, manual[0], adt)
            miss = sorted(fields - read)
            ok, why = not miss, "hand-written eq reads %s%s" % (sorted(read), "; ignores %s: two values that differ only there compare equal and are interned as one style" % miss if miss else "")
        else:
            ok, why = True, "no PartialEq (not compared)"
            continue
        chk.ob(r, adt.split("::")[-1], ok, where=fb.adts[adt]["file"], detail=why)


# fields that are user intent for the NEXT save, not content: nothing but their public setter may assign them
INTENT_FLAGS = {
    ("structs::column::Column", "auto_width"): "asks the writer to recompute the width from the cell contents; a loaded width must not be overwritten because the file said bestFit",
}


def rule_intent_flags(chk, fb):
    from props.C11 import written_fields

    r = chk.rule(
        "C05.h",
        "recompute-on-save flags are set by the caller only: the fields listed as user intent (they make the writer replace a stored value by a computed one) are assigned nowhere but in their public setter",
        floor=1,
    )
    for (adt, f), why in sorted(INTENT_FLAGS.items()):
        if adt not in fb.adts or f not in fb.struct_fields(adt):
            chk.ob(r, "%s.%s" % (adt.split("::")[-1], f), False, detail="field not found")
            continue
        writers = []
        for d, b in fb.mir.items():
            if b.get("derived") or d.endswith(("::default", "::clone", "::clone_from")):
                continue
            if f in written_fields(b, adt):
                writers.append(d)
            else:
                # through the value wrapper's setter:  self.f.set_value(..)
                for _, t in fb.calls_in(b):
                    if t.get("fn", "").split("::")[-1].startswith("set_value") and t["args"] and "p" in t["args"][0]:
                        pl = t["args"][0]["p"]
                        if any(isinstance(e, dict) and e.get("of") == adt and e.get("f") == f for e in pl.get("pr", [])):
                            writers.append(d)
                        else:
                            for bl in b["blocks"]:
                                for st in bl["s"]:
                                    if st["k"] == "assign" and st["lhs"]["l"] == pl["l"] and st["rv"]["k"] == "ref" and any(isinstance(e, dict) and e.get("of") == adt and e.get("f") == f for e in st["rv"]["place"].get("pr", [])):
                                        writers.append(d)
        writers = sorted(set(writers))
        bad = [w for w in writers if not (fb.mir[w].get("self_ty") == adt and fb.mir[w].get("vis") == "pub" and w.split("::")[-1].startswith("set_"))]
        chk.ob(r, "%s.%s" % (adt.split("::")[-1], f), bool(writers) and not bad, where=fb.adts[adt]["file"],
               detail="%s; assigned in %s%s" % (why, [w.split("::")[-1] for w in writers], "" if not bad else " - NOT only in its public setter: %s" % [b_.split("::", 2)[-1] for b_ in bad]))


def run(chk, fb, tier):
    rule_coverage(chk, fb)
    rule_eq_chain(chk, fb)
    rule_ambiguity(chk, fb)
    rule_wiring(chk, fb)
    rule_run_merge(chk, fb)
    rule_loop_emits(chk, fb)
    rule_skip_test(chk, fb)
    rule_intent_flags(chk, fb)
    import symmetry

    symmetry.rule_empty_flag_attrs(chk, fb, "C05.i")
    symmetry.rule_accessor_keeps_state(chk, fb, "C05.l")
    symmetry.rule_positional_tables(chk, fb, "C05.m")
    symmetry.rule_attr_guards(chk, fb, "C05.j")
    symmetry.rule_empty_covers_children(chk, fb, "C05.k")
    chk.assume("MD5 digests of different key strings differ (collision-free for the purpose of interning)")
    chk.note("C05.e (reader/writer symmetry of the style structs) is decided by the symmetry engine under C04.b; not decided: equality of reloaded styles (value-level)")
