"""C10 — the cell store stays coherent. Clauses a–e (DESIGN.md section 4).
The store is found by role: the struct that holds a HashMap<(u32,u32), Box<Cell>> and two
BTreeSet<(u32,u32)> indexes; which index is row-major follows from how the writers fill them
(key as-is vs swapped), not from the field names."""
from cfg import CFG
from mirq import Flow
from kernel import NotKernel, show, freeze
from itermodel import IterInterp

KEY_CHANGING = ("insert", "remove", "entry", "retain", "clear", "drain", "extend", "remove_entry", "retain_mut")


def find_store(fb):
    for path, a in fb.adts.items():
        if a["kind"] != "struct":
            continue
        ft = {f["name"]: f["ty"] for f in a["variants"][0]["fields"]}
        maps = [n for n, t in ft.items() if t.startswith("std::collections::HashMap<(u32, u32), std::boxed::Box<") and "Cell>" in t]
        sets = [n for n, t in ft.items() if t == "std::collections::BTreeSet<(u32, u32)>"]
        if len(maps) == 1 and len(sets) == 2:
            return path, maps[0], sets
    return None, None, None


def fld(store_self, name):
    return ("field", store_self, name)


def swap(t):
    if t[0] == "tuple" and len(t[1]) == 2:
        return ("tuple", (t[1][1], t[1][0]))
    return None


def extract(fb, d, closures_as_calls=True):
    it = IterInterp(fb)
    b = fb.mir[d]
    paths = list(it.run(d, [("arg", i + 1) for i in range(b["argc"])]))
    return it, paths


class StoreInterp(IterInterp):
    """Also 'calls' closures handed to std combinators (entry().or_insert_with(f), retain(f), …) so that
    their effects on the store are recorded as events."""

    def call(self, env, heap, conds, t, body, depth):
        outs = list(super().call(env, heap, conds, t, body, depth))
        fn = t.get("fn", "")
        if fn not in self.facts.mir:
            args = [self.operand(env, heap, a, body) for a in t["args"]]
            for a in args[1:]:
                if isinstance(a, tuple) and a and a[0] == "closure" and a[1] in self.facts.mir:
                    cb = self.facts.mir[a[1]]
                    extra = [("unknown", "closure-arg%d" % i) for i in range(cb["argc"] - 1)]
                    try:
                        for _ in self.run(a[1], [a] + extra, heap, list(conds) + [(("call", "invoked-by", (("const", fn.split("::")[-1]),)), 1)], depth + 1):
                            pass
                    except NotKernel:
                        self.events.append(("closure-not-kernel:" + a[1], (), tuple(conds)))
        return iter(outs)


def store_events(fb, d):
    it = StoreInterp(fb)
    b = fb.mir[d]
    paths = list(it.run(d, [("arg", i + 1) for i in range(b["argc"])]))
    return it, paths


def rule_writers(chk, fb, store, mapf, sets):
    ra = chk.rule(
        "C10.a",
        "three structures change together: every key-changing operation on the cell map is paired, under the same path condition, with the corresponding operation on BOTH indexes, or the function reaches the bulk rebuild before returning",
        floor=5,
    )
    rc = chk.rule(
        "C10.c",
        "orientation: one index receives the map key as-is and the other its swap, consistently in every writer (this also fixes which index is row-major); the key's first component is the row, the second the column",
        floor=6,
    )
    rebuilds = [d for d, b in fb.mir.items() if b.get("self_ty") == store and b["kind"] == "AssocFn" and _assigns_all(b, store, [mapf] + sets)]
    orient = {}  # set field -> "same" | "swap"
    for d, b in sorted(fb.mir.items()):
        if b["kind"] == "Closure":
            continue
        # does this function (or a closure it creates) apply a key-changing op to the map field?
        hits = []
        from props.C07 import bodies_with_closures

        for bd in bodies_with_closures(fb, d):
            bb = fb.mir[bd]
            fl = Flow(fb, bb)
            for bi, t in fl.calls():
                f = t.get("fn", "")
                if f.startswith("std::collections::HashMap::") and f.split("::")[-1] in KEY_CHANGING and t["args"]:
                    at = fl.atoms(t["args"][0])
                    if ("field", store, mapf) in at or any(a[0] == "call" and a[1].startswith(store + "::") and _returns_field(fb, a[1], store, mapf) for a in at):
                        hits.append((bd, bi, t))
            for bl in bb["blocks"]:
                for s in bl["s"]:
                    if s["k"] == "assign" and any(isinstance(e, dict) and e.get("f") == mapf and e.get("of") == store for e in s["lhs"].get("pr", [])) and s["lhs"]["pr"][-1].get("f") == mapf:
                        hits.append((bd, -1, {"fn": "assign", "ln": s["ln"]}))
        if not hits:
            continue
        chk.touch(d)
        b = fb.mir[d]
        cfg = CFG(b)
        # (1) bulk rebuild post-dominates every hit in the outer body?
        reb_blocks = [bi for bi, t in fb.calls_in(b) if t.get("fn") in rebuilds]
        is_rebuild = d in rebuilds
        try:
            it, paths = store_events(fb, d)
            kernel = True
        except NotKernel:
            kernel = False
        for bd, bi, t in hits:
            op = t["fn"].split("::")[-1]
            inst = "%s:%s(%s)" % (d, op, mapf)
            if is_rebuild:
                ok = True
                detail = "the bulk rebuild itself: assigns the map and both indexes"
            elif reb_blocks and (bd != d or all(cfg.every_path_to_exit_passes(bi, reb_blocks) for _ in [0])) and (bd == d or True):
                ok = all(cfg.every_path_to_exit_passes(x, reb_blocks) for x in ([bi] if bd == d and bi >= 0 else [0]))
                detail = "bulk rebuild %s every path from the operation to the return" % ("is on" if ok else "is NOT on")
            elif kernel:
                ok, detail = paired(it, store, mapf, sets, op, orient, chk, rc, d, fb)
            else:
                ok = False
                detail = "function has loops, changes the key set of the map and never reaches the bulk rebuild"
            chk.ob(ra, inst, ok, where="%s:%s" % (fb.mir[bd]["file"], t.get("ln", fb.mir[bd]["line"])), detail=detail)
    return orient, rebuilds


def _assigns_all(b, store, fields):
    got = set()
    for bl in b["blocks"]:
        for s in bl["s"]:
            if s["k"] == "assign":
                pr = s["lhs"].get("pr", [])
                if pr and isinstance(pr[-1], dict) and pr[-1].get("of") == store:
                    got.add(pr[-1]["f"])
    return all(f in got for f in fields)


_rf = {}


def _returns_field(fb, fn, store, field):
    k = (fn, field)
    if k not in _rf:
        b = fb.mir.get(fn)
        r = False
        if b and len(b["blocks"]) < 30:
            r = ("field", store, field) in Flow(fb, b).atoms(0)
        _rf[k] = r
    return _rf[k]


def paired(it, store, mapf, sets, op, orient, chk, rc, d, fb):
    """Events of a loop-free writer: the map op with key K and ops on both index sets under equal conditions."""
    mev = [(f, a, c) for f, a, c in it.events if f.startswith("std::collections::HashMap::") and f.split("::")[-1] == op and a and _is_field(a[0], mapf)]
    if not mev:
        return False, "map operation not found in the extracted normal form"
    kind = "insert" if op in ("insert", "entry") else "remove"
    K = mev[0][1][1] if len(mev[0][1]) > 1 else None
    sev = {}
    for f, a, c in it.events:
        if f.startswith("std::collections::BTreeSet::") and f.split("::")[-1] == kind and a:
            for s in sets:
                if _is_field(a[0], s):
                    sev.setdefault(s, []).append((a[1], c))
    missing = [s for s in sets if s not in sev]
    if missing:
        return False, "no %s on index %s accompanies the %s on the map" % (kind, missing, op)
    conds = {s: freeze(_strip_invoked(sev[s][0][1])) for s in sets}
    same_cond = len(set(conds.values())) == 1
    # orientation
    if K is not None:
        for s in sets:
            T = sev[s][0][0]
            o = "same" if freeze(T) == freeze(K) else ("swap" if swap(K) and freeze(T) == freeze(swap(K)) else "other")
            prev = orient.get(s)
            ok = o in ("same", "swap") and (prev is None or prev == o)
            if prev is None and o in ("same", "swap"):
                orient[s] = o
            chk.ob(rc, "%s:%s:%s" % (d, kind, s), ok, where=fb.loc(d), detail="index %s receives %s, map key is %s: %s%s" % (s, show(T), show(K), o, "" if prev in (None, o) else " (elsewhere: %s)" % prev))
        okk = len(set(orient.get(s) for s in sets)) == 2
        # ground truth of the key: (row, col)
        ks = show(K)
        first, second = (show(K[1][0]), show(K[1][1])) if K[0] == "tuple" else ("?", "?")
        if "." in first and "." in second:  # components carry field names of the data model (ground truth)
            g = ("row" in first and "col" not in first) and ("col" in second and "row" not in second)
            chk.ob(rc, "%s:%s:key" % (d, kind), g, where=fb.loc(d), detail="map key %s: first component is the row, second the column: %s" % (ks, g))
    return same_cond, "map %s with key %s; index operations under %s path condition" % (op, show(K) if K else "?", "the same" if same_cond else "DIFFERENT")


def _strip_invoked(conds):
    return tuple((c, e) for c, e in conds if not (isinstance(c, tuple) and c and c[0] == "call" and c[1] == "invoked-by"))


def _is_field(t, name):
    return isinstance(t, tuple) and t and t[0] == "field" and t[2] == name


def rule_rebuild(chk, fb, store, mapf, sets, orient, rebuilds):
    rb = chk.rule(
        "C10.b",
        "key equals stored coordinate: the bulk rebuild keys every cell by its own (row, column); every function of the store or the sheet that reaches a mutation of the coordinates of cells held in the map reaches the rebuild before returning",
        floor=3,
    )
    rc = "C10.c"
    for d in rebuilds:
        try:
            it, paths = store_events(fb, d)
        except NotKernel as e:
            chk.ob(rb, "%s:rebuild" % d, False, where=fb.loc(d), detail="not a kernel: %s" % e)
            continue
        ret, heap, conds = paths[0]
        wm = ws = None
        for a, v in heap.items():
            if _is_field(a, mapf):
                wm = v
        ok = False
        detail = "map not reassigned"
        if wm is not None:
            s = show(wm)
            # collected(iter(map, ((cell.row, cell.col), take(cell))))
            if wm[0] == "collected" and wm[1][0] == "iter" and wm[1][2][0] == "tuple":
                key = wm[1][2][1][0]
                ks = show(key)
                if key[0] == "tuple":
                    first, second = show(key[1][0]), show(key[1][1])
                    ok = "coordinate" in ks and "row" in first and "col" in second and "col" not in first.replace("coordinate", "") and "elem" in ks
                    detail = "rebuilt key = %s" % ks[:200]
        chk.ob(rb, "%s:rebuild-key" % d, ok, where=fb.loc(d), detail=detail)
        for sname in sets:
            v = None
            for a, val in heap.items():
                if _is_field(a, sname):
                    v = val
            o = "?"
            if v is not None and v[0] == "collected" and v[1][0] == "iter":
                e = v[1][2]
                if e[0] == "elem":
                    o = "same"
                elif e[0] == "tuple" and len(e[1]) == 2 and all(x[0] == "field" and x[1][0] == "elem" for x in e[1]) and (e[1][0][2], e[1][1][2]) == ("1", "0"):
                    o = "swap"
            want = orient.get(sname)
            chk.ob(rc, "%s:rebuild:%s" % (d, sname), o == want and o != "?", where=fb.loc(d), detail="rebuild fills index %s with the map keys %s (writers: %s)" % (sname, o, want))
    # functions that can mutate coordinates of cells inside the map
    coord_mut = coordinate_mutators(fb)
    for d, b in sorted(fb.mir.items()):
        if b["kind"] == "Closure" or b.get("self_ty") not in (store, "structs::worksheet::Worksheet"):
            continue
        fl = Flow(fb, b)
        # obtains &mut cells of the map: values_mut / iter_mut on the map field, or a store getter returning &mut map / Vec<&mut Cell>
        obtains = []
        for bi, t in fl.calls():
            f = t.get("fn", "")
            if (f.startswith("std::collections::HashMap::") and f.split("::")[-1] in ("values_mut", "iter_mut", "get_mut")) or (
                f.startswith(store + "::") and "mut" in f.split("::")[-1] and fb.mir.get(f) and ("&mut" in fb.ty(fb.mir[f]["locals"][0]["t"])) and ("Cell" in fb.ty(fb.mir[f]["locals"][0]["t"])) and ("HashMap" in fb.ty(fb.mir[f]["locals"][0]["t"]) or "Vec" in fb.ty(fb.mir[f]["locals"][0]["t"]))
            ):
                if f.endswith("::get_mut") and f.startswith(store):
                    continue
                obtains.append(bi)
        if not obtains:
            continue
        muts = [bi for bi, t in fl.calls() if t.get("fn") in coord_mut]
        if not muts:
            continue
        chk.touch(d)
        cfg = CFG(b)
        reb = [bi for bi, t in fb.calls_in(b) if t.get("fn") in rebuilds]
        ok = bool(reb) and all(cfg.every_path_to_exit_passes(m, reb) for m in muts)
        chk.ob(rb, "%s:rebuild-after-coordinate-mutation" % d, ok, where=fb.loc(d), detail="mutates coordinates of cells held in the map (%s); rebuild %s every path to the return" % (sorted({b["blocks"][m]["t"]["fn"].split("::")[-1] for m in muts}), "is on" if ok else "is NOT on"))


def coordinate_mutators(fb):
    """Crate functions that (transitively) assign the numeric field of a column/row reference of a cell coordinate
    through their first argument."""
    base = set()
    for d, b in fb.mir.items():
        for bl in b["blocks"]:
            for s in bl["s"]:
                if s["k"] == "assign":
                    pr = s["lhs"].get("pr", [])
                    if pr and isinstance(pr[-1], dict) and pr[-1].get("of") in ("structs::column_reference::ColumnReference", "structs::row_reference::RowReference") and pr[-1]["f"] == "num":
                        base.add(d)
    # close over callers, but only along functions whose self type is part of Cell's coordinate chain
    chain = ("structs::column_reference::ColumnReference", "structs::row_reference::RowReference", "structs::coordinate::Coordinate", "structs::cell::Cell")
    out = set(base)
    changed = True
    while changed:
        changed = False
        for d, b in fb.mir.items():
            if d in out or b.get("self_ty") not in chain:
                continue
            if any(t.get("fn") in out for _, t in fb.calls_in(b)):
                # formula-only passes of Cell do not count: they must reach a coordinate mutator
                out.add(d)
                changed = True
    return out


def rule_readers(chk, fb, store, mapf, sets, orient):
    rr = chk.rule(
        "C10.c.read",
        "readers un-swap consistently: every lookup map.get(key) fed from an index element uses the element as-is for the as-is index and swapped for the swapped index; iterators of coordinates deliver (column, row); single-axis listings take the minor component",
        floor=14,
    )
    re_ = chk.rule(
        "C10.e",
        "derived extent: the highest column comes from the column-major index and the highest row from the row-major index (major component of the last element)",
        floor=1,
    )
    same = [s for s in sets if orient.get(s) == "same"]
    swp = [s for s in sets if orient.get(s) == "swap"]
    if len(same) != 1 or len(swp) != 1:
        return
    rowmajor, colmajor = same[0], swp[0]  # map key is (row, col): as-is index is row-major
    for d, b in sorted(fb.mir.items()):
        if b.get("self_ty") != store or b["kind"] != "AssocFn":
            continue
        fl = Flow(fb, b)
        reads = {s for s in sets if any(("field", store, s) in fl.atoms(t["args"][0]) for _, t in fl.calls() if t["args"])} | {
            s for s in sets for bl in b["blocks"] for st in bl["s"] if st["k"] == "assign" and st["rv"]["k"] == "ref" and any(isinstance(e, dict) and e.get("f") == s for e in st["rv"]["place"].get("pr", []))
        }
        if not reads:
            # readers built on other readers are covered through inlining: look at events
            pass
        try:
            it, paths = extract(fb, d)
        except NotKernel:
            continue
        except Exception as e:
            continue
        if len(paths) != 1:
            # several paths that only differ in Some/None tests of the same values: keep the all-present one
            full = [p_ for p_ in paths if p_[2] and all(isinstance(c_, tuple) and c_ and c_[0] == "discr" and v_ == 1 for c_, v_ in p_[2])]
            if len(full) != 1 or not all(all(isinstance(c_, tuple) and c_ and c_[0] == "discr" for c_, _ in p_[2]) for p_ in paths):
                continue
            paths = full
        ret, heap, conds = paths[0]
        chk.touch(d)
        # lookups
        n = 0
        for f, a, c in it.events:
            if f.split("::")[-1] in ("get", "get_mut", "contains_key") and f.startswith("std::collections::HashMap::") and _is_field(a[0], mapf):
                key = a[1]
                src = _elem_sources(key)
                if not src:
                    continue
                if len(src) != 1:
                    chk.ob(rr, "%s:lookup#%d" % (d, n), False, where=fb.loc(d), detail="lookup key %s mixes elements of several indexes" % show(key))
                    n += 1
                    continue
                s = next(iter(src))
                E = _full_elem(it, s)
                want = ("tuple", (_proj(E, 0), _proj(E, 1))) if s == rowmajor else ("tuple", (_proj(E, 1), _proj(E, 0)))
                ok = freeze(key) == freeze(want)
                chk.ob(rr, "%s:lookup#%d" % (d, n), ok, where=fb.loc(d), detail="map looked up with %s from an element of index %s; expected %s" % (show(key)[:160], s, show(want)[:160]))
                n += 1
        # returned coordinate iterators
        r = ret
        if r[0] == "collected":
            r = r[1]
        if r[0] == "iter" and _is_set_field(r[1], sets):
            s = r[1][2]
            e = r[2]
            E = _full_elem(it, s)
            if e[0] == "elem" or (e[0] == "tuple" and len(e[1]) == 2 and all(_pure_proj(x, E) for x in e[1])):
                # (column, row)
                want = ("tuple", (_proj(E, 1), _proj(E, 0))) if s == rowmajor else ("tuple", (_proj(E, 0), _proj(E, 1)))
                got = e if e[0] == "tuple" else ("tuple", (_proj(e, 0), _proj(e, 1)))
                if E[0] == "tuple" and e[0] == "elem":
                    got = ("tuple", (_proj(E, 0), _proj(E, 1)))
                ok = freeze(got) == freeze(want)
                chk.ob(rr, "%s:coordinates" % d, ok, where=fb.loc(d), detail="yields %s from index %s; (column, row) would be %s" % (show(got)[:120], s, show(want)[:120]))
            elif e[0] == "field" and e[1][0] == "elem" and e[2] in ("0", "1"):
                ok = e[2] == "1"
                chk.ob(rr, "%s:minor" % d, ok, where=fb.loc(d), detail="single-axis listing takes component %s of an element of index %s (minor component is 1)" % (e[2], s))
        # extent
        if ret[0] == "tuple" and len(ret[1]) == 2 and all("last" in show(x) for x in ret[1]):
            a, bb = show(ret[1][0]), show(ret[1][1])
            a, bb = a.replace(" as Some.0", ""), bb.replace(" as Some.0", "")
            ok = colmajor in a and rowmajor not in a and a.endswith(".0") and rowmajor in bb and colmajor not in bb and bb.endswith(".0")
            chk.ob(re_, "%s:extent" % d, ok, where=fb.loc(d), detail="(highest column, highest row) = (%s, %s); column-major index is %s, row-major %s" % (a[:80], bb[:80], colmajor, rowmajor))


def _pure_proj(x, E):
    if x[0] == "field" and x[1][0] == "elem" and x[2] in ("0", "1"):
        return True
    return E[0] == "tuple" and any(freeze(x) == freeze(c) for c in E[1])


def _is_set_field(t, sets):
    return isinstance(t, tuple) and t and t[0] == "field" and t[2] in sets


def _elem_sources(t, acc=None):
    acc = acc if acc is not None else set()
    if isinstance(t, tuple):
        if t and t[0] == "elem" and isinstance(t[1], tuple) and t[1][0] == "field":
            acc.add(t[1][2])
        else:
            for x in t:
                _elem_sources(x, acc)
    return acc


def _full_elem(it, s):
    """Element term of index s as seen through the range restriction recorded for it (major pinned)."""
    for f, a, c in it.events:
        if f.endswith("BTreeSet::<T, A>::range") and _is_field(a[0], s):
            r = a[1]
            if r[0] == "call" and r[1].endswith("RangeInclusive::<Idx>::new"):
                lo, hi = r[2]
                if lo[0] == "tuple" and hi[0] == "tuple" and freeze(lo[1][0]) == freeze(hi[1][0]):
                    return ("tuple", (lo[1][0], ("field", ("elem", a[0], "set"), "1")))
        if (f.endswith("BTreeSet::<T, A>::range") or f.endswith("BTreeSet::<T, A>::iter")) and _is_field(a[0], s):
            return ("elem", a[0], "set")
    return ("elem", ("field", ("arg", 1), s), "set")


def _proj(E, i):
    if E[0] == "tuple":
        return E[1][i]
    return ("field", E, str(i))


def rule_rows(chk, fb, store, mapf):
    rd = chk.rule(
        "C10.d",
        "every inserted cell has a row entry: the store's inserters are called only from contexts that establish the row first — (i) the row table is given an entry for the same row term before the map insertion, (ii) a reader routine filling a caller-provided store whose callers record the row afterwards on every path, or (iii) a store that is returned and never attached to a sheet",
        floor=3,
    )
    inserters = set()
    for d, b in fb.mir.items():
        if b.get("self_ty") == store and b["kind"] == "AssocFn":
            for _, t in fb.calls_in(b):
                f = t.get("fn", "")
                if f.startswith("std::collections::HashMap::") and f.split("::")[-1] in ("insert", "entry") and t["args"]:
                    if ("field", store, mapf) in Flow(fb, b).atoms(t["args"][0]):
                        inserters.add(d)
    # close: store methods that call inserters are inserters too
    changed = True
    while changed:
        changed = False
        for d, b in fb.mir.items():
            if d not in inserters and b.get("self_ty") == store and b["kind"] == "AssocFn" and any(t.get("fn") in inserters for _, t in fb.calls_in(b)):
                inserters.add(d)
                changed = True
    for ins in sorted(inserters):
        for caller, bi in sorted(set(fb.callers.get(ins, []))):
            cb = fb.mir[caller]
            if cb.get("self_ty") == store:
                continue
            chk.touch(caller)
            inst = "%s->%s" % (caller, ins.split("::")[-1])
            try:
                it, paths = store_events(fb, caller)
                kernel = True
            except NotKernel:
                kernel = False
            # a routine that fills a store it was handed (by &mut parameter) is judged by its callers, loop-free or not
            if kernel and bi >= 0:
                fl_ = Flow(fb, cb)
                t_ = cb["blocks"][bi]["t"]
                if t_["args"] and any(a[0] == "arg" and store in fb.ty(cb["locals"][a[1]]["t"]) and "&mut" in fb.ty(cb["locals"][a[1]]["t"]) for a in fl_.atoms(t_["args"][0], through_calls=False)):
                    kernel = False
            if kernel:
                ok = True
                detail = ""
                for ret, heap, conds in paths[:1]:
                    pass
                rows_seen = []
                verdicts = []
                for f, a, c in it.events:
                    nm = f.split("::")[-1]
                    if f.startswith("std::collections::HashMap::") and nm in ("entry", "insert") and a:
                        if _is_field(a[0], mapf):
                            key = a[1]
                            R = key[1][0] if key[0] == "tuple" else None
                            verdicts.append(any(freeze(r) == freeze(R) for r in rows_seen))
                            detail = "map insertion with row term %s; row table entries established before it for %s" % (show(R), [show(r) for r in rows_seen])
                        elif a[0][0] == "field" and "row" in a[0][2]:
                            rows_seen.append(a[1])
                ok = bool(verdicts) and all(verdicts)
                chk.ob(rd, inst, ok, where="%s:%s" % (cb["file"], cb["blocks"][bi]["t"]["ln"] if bi >= 0 else cb["line"]), detail=detail or "no insertion event found")
            else:
                # (ii)/(iii): the store is a parameter of the caller
                fl = Flow(fb, cb)
                t = cb["blocks"][bi]["t"]
                at = fl.atoms(t["args"][0], through_calls=False)
                params = [a[1] for a in at if a[0] == "arg" and store in fb.ty(cb["locals"][a[1]]["t"]) and "&mut" in fb.ty(cb["locals"][a[1]]["t"])]
                if not params:
                    chk.ob(rd, inst, False, where="%s:%s" % (cb["file"], t["ln"]), detail="inserts into a store that is not a parameter, in a function with loops, without establishing the row")
                    continue
                p = params[0]

                def callers_establish(fn, p, depth=0):
                    """(ok, notes): every caller of fn hands in, as parameter p, a sheet's store and records the row afterwards,
                    or a local store that is never attached; a caller that merely passes its own parameter on is followed up."""
                    good = True
                    notes = []
                    for c2, b2 in sorted(set(fb.callers.get(fn, []))):
                        c2b = fb.mir[c2]
                        cfg2 = CFG(c2b)
                        fl2 = Flow(fb, c2b)
                        t2 = c2b["blocks"][b2]["t"]
                        if p - 1 >= len(t2["args"]):
                            continue
                        a2 = fl2.atoms(t2["args"][p - 1])
                        from_sheet = any(x[0] == "call" and "cell_collection" in x[1] for x in a2) or any(x[0] == "field" and x[2] == "cell_collection" for x in a2)
                        up = [x[1] for x in fl2.atoms(t2["args"][p - 1], through_calls=False) if x[0] == "arg" and store in fb.ty(c2b["locals"][x[1]]["t"]) and "&mut" in fb.ty(c2b["locals"][x[1]]["t"])]
                        if from_sheet:
                            # (ii) the row object (receiver) is stored afterwards on every path
                            stores = [bi3 for bi3, t3 in fb.calls_in(c2b) if t3.get("fn", "").endswith("::set_row_dimension")]
                            ok2 = bool(stores) and cfg2.every_path_to_exit_passes(b2, stores) or _loop_body_passes(cfg2, b2, stores)
                            notes.append("%s: sheet store, row recorded afterwards: %s" % (c2.split("::")[-1], ok2))
                            good = good and ok2
                        elif up and depth < 3:
                            ok2, n2 = callers_establish(c2, up[0], depth + 1)
                            notes.append("%s passes its own store parameter on" % c2.split("::")[-1])
                            notes += n2
                            good = good and ok2
                        else:
                            # (iii) a local store: must be returned, never attached
                            attached = any(t3.get("fn", "").endswith("set_cell_collection") or "set_cell_collection" in t3.get("fn", "") for _, t3 in fb.calls_in(c2b))
                            notes.append("%s: local store, attached to a sheet: %s" % (c2.split("::")[-1], attached))
                            good = good and not attached
                    return good, notes

                good, notes = callers_establish(caller, p)
                chk.ob(rd, inst, good, where="%s:%s" % (cb["file"], t["ln"]), detail="; ".join(notes))


def _loop_body_passes(cfg, start, through):
    """Within a loop: every path from start back to the loop header or to an exit passes `through`."""
    through = set(through)
    r = cfg.reachable(start, avoid=through)
    # blocks reachable without passing the store call must not include a back edge target that dominates start
    for a, b in cfg.back_edges():
        if a in r and cfg.dominates(b, start):
            return False
    return not any(e in r for e in cfg.exits)


def rule_entry_keys(chk, fb, store, mapf):
    rk = chk.rule(
        "C10.c.api",
        "API entry points: wherever a public sheet method reaches a map operation of the store (store methods inlined), the key is (row, column) of the coordinate it was given",
        floor=4,
    )
    for d, b in sorted(fb.mir.items()):
        if b.get("self_ty") != "structs::worksheet::Worksheet" or b.get("vis") != "pub" or b["kind"] != "AssocFn":
            continue
        if not any(t.get("fn", "").startswith(store + "::") for _, t in fb.calls_in(b)):
            continue
        try:
            it, paths = store_events(fb, d)
        except NotKernel:
            continue
        except Exception:
            continue
        n = 0
        for f, a, c in it.events:
            if f.startswith("std::collections::HashMap::") and len(a) > 1 and _is_field(a[0], mapf) and a[1][0] == "tuple" and len(a[1][1]) == 2:
                first, second = show(a[1][1][0]), show(a[1][1][1])
                if "." not in first or "." not in second or "elem" in first or "unknown" in first + second:
                    continue
                g = ("row" in first and "col" not in first) and ("col" in second and "row" not in second)
                chk.touch(d)
                chk.ob(rk, "%s:%s#%d" % (d, f.split("::")[-1], n), g, where=fb.loc(d), detail="map %s with key (%s, %s)" % (f.split("::")[-1], first[:80], second[:80]))
                n += 1


def rule_extent_wrappers(chk, fb, store, sets):
    """What the sheet reports as its extent is the store's extent and nothing else (row/column settings without cells
    are not cells)."""
    r = chk.rule(
        "C10.e.api",
        "the sheet's extent is the store's extent: every public method of the owner of the store whose result derives from the store's extent function derives from no other field of the owner",
        floor=2,
    )
    # the extent functions of the store: results derive from both indexes
    ext = set()
    for d, b in fb.mir.items():
        if b.get("self_ty") == store and b["kind"] == "AssocFn" and b["argc"] == 1:
            fl = Flow(fb, b)
            at = fl.atoms(0)
            if all(("field", store, s_) in at for s_ in sets) and fb.ty(b["locals"][0]["t"]).replace(" ", "") in ("(u32,u32)",):
                ext.add(d)
    if not ext:
        chk.ob(r, "store-extent", False, detail="no extent function found in the store")
        return
    owners = {a for a, ad in fb.adts.items() if ad["kind"] == "struct" and any(f["ty"] == store for f in ad["variants"][0]["fields"])}
    for d, b in sorted(fb.mir.items()):
        if b.get("self_ty") not in owners or b["kind"] != "AssocFn" or b.get("vis") != "pub":
            continue
        fl = Flow(fb, b)
        at = fl.atoms(0)
        if not any(a[0] == "call" and a[1] in ext for a in at):
            continue
        own = b["self_ty"]
        storef = [f["name"] for f in fb.adts[own]["variants"][0]["fields"] if f["ty"] == store]
        other = sorted(a[2] for a in at if a[0] == "field" and a[1] == own and a[2] not in storef)
        chk.touch(d)
        chk.ob(r, "%s" % d.split("::", 2)[-1], not other, where=fb.loc(d), detail="result derives from the store's extent%s" % (" only" if not other else " AND from the owner's field(s) %s" % other))


def rule_range_bounds(chk, fb, store, sets, orient, rid="C10.c.bound"):
    """The ordered indexes answer "all cells of row r / column c" by a range query (r, 0)..=(r, BOUND): BOUND has to be at
    least the largest value the second component can take - 16384 where it is a column, 1048576 where it is a row."""
    r = chk.rule(
        rid,
        "range queries on the ordered indexes reach the end of the axis: the upper bound of the second key component is u32::MAX or at least the grid maximum of the axis that component holds in that index (column: 16384, row: 1048576)",
        floor=3,
    )
    for d, b in sorted(fb.mir.items()):
        if b.get("self_ty") != store or "::{closure" in d:
            continue
        fl = Flow(fb, b)
        n = 0
        for bi, t in fl.calls(lambda t: t.get("fn", "").split("::")[-1] == "range" and "BTreeSet" in t.get("fn", "")):
            at0 = fl.atoms(t["args"][0], through_calls=False)
            which = [s_ for s_ in sets if ("field", store, s_) in at0]
            if len(which) != 1 or len(t["args"]) < 2:
                continue
            at1 = fl.atoms(t["args"][1])
            consts = sorted(a[1] for a in at1 if a[0] == "const" and isinstance(a[1], int))
            # the range may be built by a private helper of the store: its constants count
            for a in at1:
                if a[0] == "call" and a[1] in fb.mir and fb.mir[a[1]].get("self_ty") == store and "Range" in fb.ty(fb.mir[a[1]]["locals"][0]["t"]):
                    hb = fb.mir[a[1]]
                    hfl = Flow(fb, hb)
                    consts += [x[1] for x in hfl.atoms(0) if x[0] == "const" and isinstance(x[1], int)]
                    consts += [fb.consts[x[1]]["value"]["i"] for x in hfl.atoms(0) if x[0] == "const" and isinstance(x[1], str) and x[1] in fb.consts and "i" in fb.consts[x[1]].get("value", {})]
            consts = sorted(consts)
            if not consts:
                continue
            upper = consts[-1]
            second_is_row = orient.get(which[0]) == "swap"
            need = 1048576 if second_is_row else 16384
            ok = upper >= need
            chk.touch(d)
            chk.ob(r, "%s:%s#%d" % (d.split("::")[-1], which[0], n), ok, where="%s:%s" % (b["file"], t.get("ln")),
                   detail="range query on %s (second component = %s): upper bound %s, needs >= %d" % (which[0], "row" if second_is_row else "column", upper, need))
            n += 1


def rule_pair_lists(chk, fb, store, rid="C10.c.pairs"):
    """Coordinates parked in a local list of pairs keep their axes: a pair pushed as (row getter, column getter) and taken
    out again as (a, b) gives a = row, b = column; a store method called with them must receive the column where its
    parameter is the column and the row where it is the row."""
    import hirq

    r = chk.rule(
        rid,
        "pairs keep their axes: where a function collects (column/row getter, column/row getter) pairs in a local list and later destructures the list's elements into the arguments of a store method, each argument's axis (from the getter it was pushed with) is the axis of the parameter it is passed to (from the parameter's name)",
        floor=0,  # a function that collects in one place and consumes in another has no instance: nothing is claimed
    )

    def axis_of(e):
        names = {y.get("name") for y in hirq.walk(e) if y.get("k") == "mcall"}
        ax = {a for a in ("col", "row") if any(n and n.startswith("get_%s" % a) and n.endswith("num") for n in names)}
        return next(iter(ax)) if len(ax) == 1 else None

    for d, h in sorted(fb.hir.items()):
        if h.get("self_ty") != "structs::worksheet::Worksheet" or h["file"].startswith("tests"):
            continue
        pushes = {}  # list lid -> (axis0, axis1)
        for x in hirq.walk(h["body"]):
            if x.get("k") == "mcall" and x.get("name") == "push" and x.get("args"):
                rc = hirq.strip(x["recv"])
                a0 = hirq.strip(x["args"][0])
                if rc.get("k") == "path" and a0.get("k") == "tup" and len(a0.get("es", [])) == 2:
                    ax = (axis_of(a0["es"][0]), axis_of(a0["es"][1]))
                    if None not in ax:
                        pushes.setdefault(rc.get("lid"), set()).add(ax)
        if not pushes:
            continue
        for node, it, var, body in hirq.for_loops(h["body"]):
            it_ = hirq.strip(it)
            while it_.get("k") in ("ref",) or (it_.get("k") == "mcall" and it_.get("name") in ("iter", "into_iter", "drain")):
                it_ = hirq.strip(it_.get("e") or it_.get("recv"))
            if it_.get("k") != "path" or it_.get("lid") not in pushes or len(pushes[it_["lid"]]) != 1:
                continue
            ax = next(iter(pushes[it_["lid"]]))
            v = var
            while v.get("k") == "ref":
                v = v["sub"]
            if v.get("k") != "tuple" or len(v.get("subs", [])) != 2:
                continue
            binds = {}
            for i, sub in enumerate(v["subs"]):
                while sub.get("k") == "ref":
                    sub = sub["sub"]
                if sub.get("k") == "bind":
                    binds[sub.get("lid")] = ax[i]
            n = 0
            for y in hirq.walk(body):
                if y.get("k") == "mcall" and y.get("def", "").startswith(store + "::") and y.get("def") in fb.mir:
                    cb = fb.mir[y["def"]]
                    for i, a in enumerate(y.get("args", [])):
                        a_ = hirq.strip(a)
                        while a_.get("k") == "ref":
                            a_ = hirq.strip(a_["e"])
                        if a_.get("k") == "path" and a_.get("lid") in binds and i + 2 < len(cb["locals"]):
                            pname = cb["locals"][i + 2].get("n") or ""
                            want = "col" if "col" in pname else ("row" if "row" in pname else None)
                            if want is None:
                                continue
                            chk.touch(d)
                            chk.ob(r, "%s->%s:arg%d#%d" % (d.split("::")[-1], y["def"].split("::")[-1], i, n), binds[a_["lid"]] == want, where="%s:%s" % (h["file"], y.get("ln")),
                                   detail="parameter `%s` of %s receives the component that was pushed from a %s getter" % (pname, y["def"].split("::")[-1], binds[a_["lid"]]))
                    n += 1


def rule_row_entry_removal(chk, fb, store, rid="C10.d.remove"):
    """The sheet writer emits the cells of the rows it knows (rows with an entry in the row table): a row entry may go
    only together with the row's cells.  Outside the row container's own shifting code, a function that drops a row entry
    and removes cells must do both or neither."""
    r = chk.rule(
        rid,
        "a row entry goes only with its cells: in every function outside the row container that removes an entry of the row table and also removes cells, the entry removal and the cell-removal loop are control-equivalent (each is passed whenever the other is - no early exit between them)",
        floor=1,
    )
    for d, b in sorted(fb.mir.items()):
        if b["file"].startswith("tests") or "::{closure" in d or (b.get("self_ty") or "").endswith("::Rows") or (b.get("impl_self") or "").endswith("::Rows"):
            continue
        fl = Flow(fb, b)
        drops = []
        for bi, t in fl.calls():
            f = t.get("fn", "")
            if "HashMap" in f and f.split("::")[-1] in ("remove", "remove_entry") and t["args"] and "p" in t["args"][0]:
                ty = fl.local_ty(t["args"][0]["p"]["l"])
                if ty.startswith("&mut std::collections::HashMap<u32, std::boxed::Box<") and ty.endswith("Row>>"):
                    drops.append((bi, t))
        if not drops:
            continue
        cell_removals = [bi for bi, t in fl.calls(lambda t: t.get("fn", "") == store + "::remove")]
        if not cell_removals:
            continue
        cfg = CFG(b)
        loops = {}
        for tl, h in cfg.back_edges():
            loops.setdefault(h, set()).update(cfg.natural_loop(tl, h))
        chk.touch(d)
        for n, (bi, t) in enumerate(drops):
            # the loop that removes the cells: smallest loop around a cell removal that does not contain the entry removal
            heads = []
            for cr in cell_removals:
                cands = [(len(body), h) for h, body in loops.items() if cr in body and bi not in body]
                heads.append(min(cands)[1] if cands else cr)
            ok = bool(heads) and all((cfg.dominates(bi, h) and cfg.postdominates(h, bi)) or (cfg.dominates(h, bi) and cfg.postdominates(bi, h)) for h in heads)
            chk.ob(r, "%s:row-entry#%d" % (d.split("::", 1)[-1], n), ok, where="%s:%s" % (b["file"], t.get("ln")),
                   detail="row entry removed here; the cell removal %s" % ("is passed on exactly the same paths" if ok else "is NOT passed on the same paths: an exit between the two leaves cells in a row the writer no longer knows (they vanish from the saved file)"))


def run(chk, fb, tier):
    store, mapf, sets = find_store(fb)
    chk.rule("C10.anchor", "the cell store located by role (a HashMap<(u32,u32),Box<Cell>> with two BTreeSet<(u32,u32)> indexes)", floor=1)
    chk.ob("C10.anchor", "store:%s" % store, store is not None, where=fb.adts[store]["file"] if store else "", nontrivial=False)
    if not store:
        return
    orient, rebuilds = rule_writers(chk, fb, store, mapf, sets)
    rule_rebuild(chk, fb, store, mapf, sets, orient, rebuilds)
    rule_readers(chk, fb, store, mapf, sets, orient)
    rule_rows(chk, fb, store, mapf)
    rule_entry_keys(chk, fb, store, mapf)
    rule_extent_wrappers(chk, fb, store, sets)
    rule_row_entry_removal(chk, fb, store)
    rule_pair_lists(chk, fb, store)
    rule_range_bounds(chk, fb, store, sets, orient)
    chk.assume("std HashMap / BTreeSet are correct; BTreeSet<(u32,u32)> iterates in lexicographic order")
    chk.note("not decided: agreement of all listings after arbitrary histories (follows from a-c only under the std-collections assumption)")
