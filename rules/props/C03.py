"""C03 — the reader agrees with an independent decoder (structure). Clauses a–c (DESIGN.md section 4)."""
import channels
import hirq
from mirq import Flow
from props import C01, C08, C09

CELL = "structs::cell::Cell"


def rule_shared_formula(chk, fb):
    rb = chk.rule(
        "C03.b",
        "shared-formula expansion uses the translation kernel: the text of a shared-formula child is produced by the relative-translation kernel applied to (child - anchor) per axis, computed in signed arithmetic; the row/column insert kernels are not used for it",
        floor=4,
    )
    d = "structs::cell_formula::CellFormula::set_attributes"
    if d not in fb.mir:
        chk.ob(rb, "anchor", False, detail="CellFormula::set_attributes not found")
        return
    b = fb.mir[d]
    fl = Flow(fb, b)
    chk.touch(d)
    tr = set(C09.find_translate(fb))
    kernels, hr = C08.formula_kernels(fb)
    tcalls = [(bi, t) for bi, t in fl.calls(lambda t: t.get("fn") in tr)]
    kcalls = [(bi, t) for bi, t in fl.calls(lambda t: t.get("fn") in kernels)]
    chk.ob(rb, "uses-translation-kernel", bool(tcalls), where=fb.loc(d), detail="calls to the translation kernel: %d" % len(tcalls))
    chk.ob(rb, "no-insert-kernel", not kcalls, where=fb.loc(d) if not kcalls else "%s:%s" % (b["file"], kcalls[0][1]["ln"]), detail="calls to the insert/remove kernels while reading: %s (they move only references at or beyond a root cell)" % [t["fn"].split("::")[-1] for _, t in kcalls])
    parse = [bi for bi, t in fl.calls(lambda t: t.get("fn", "").endswith("index_from_coordinate"))]
    for bi, t in tcalls:
        for pos, fld, axis in ((1, "0", "column"), (2, "1", "row")):
            at = fl.atoms(t["args"][pos], stop_calls=lambda f: f.endswith("index_from_coordinate"))
            fields = sorted({a[2] for a in at if a[0] == "field" and a[1] == "tuple" and a[2] in "0123"})
            parses = {a[2] for a in at if a[0] == "call" and a[1].endswith("index_from_coordinate")}
            ok = fields == [fld] and len(parses) == 2
            chk.ob(rb, "offset(%s)" % axis, ok, where="%s:%s" % (b["file"], t["ln"]), detail="%s offset derives from component(s) %s of %d parsed coordinates (needs component %s of both the child and the anchor)" % (axis, fields, len(parses), fld))
            # signed subtraction
            signed = False
            seen = set()
            work = [t["args"][pos]["p"]["l"]] if "p" in t["args"][pos] else []
            while work:
                l = work.pop()
                if l in seen:
                    continue
                seen.add(l)
                for dd in fl.defs.get(l, []):
                    if dd[0] == "rv":
                        rv = dd[3]
                        if rv["k"] == "bin" and rv["op"].startswith("Sub"):
                            ty = fb.ty(b["locals"][rv["a"]["p"]["l"]]["t"]) if "p" in rv["a"] else ""
                            signed = signed or ty.startswith("i")
                        for o in __import__("facts").rv_operands(rv):
                            if "p" in o:
                                work.append(o["p"]["l"])
                        if rv["k"] == "ref":
                            work.append(rv["place"]["l"])
            chk.ob(rb, "offset(%s):signed" % axis, signed, where="%s:%s" % (b["file"], t["ln"]), detail="child - anchor is computed on signed integers: %s (children above / left of the anchor give negative offsets)" % signed)


def rule_values(chk, fb):
    rc = chk.rule(
        "C03.c",
        "typed value reconstruction: every ST_CellType value has a reader arm; no value setter used while reading a <c> element discards the formula read from the same element",
        floor=8,
    )
    C01.rule_reader_arms(chk, fb, rc)
    R, _ = C01.reader_table(fb)
    seen = set()
    for tval, callees in sorted(R.items()):
        for c in callees:
            if c in seen:
                continue
            seen.add(c)
            reach = fb.reachable_from([c])
            bad = [x for x in reach if x.endswith("::remove_formula")]
            chk.touch(c)
            chk.ob(rc, "setter-keeps-formula:%s" % c.split("::")[-1], not bad, where=fb.loc(c), detail="reader-side setter for t=%r %s" % (tval, "does not touch the formula" if not bad else "reaches %s: <c t=%r><f>..</f><v>..</v></c> loses its formula" % (bad[0].split("::")[-1], tval)))


def run(chk, fb, tier):
    channels.rule_attr_unescape(chk, fb, "C03.a")
    rule_shared_formula(chk, fb)
    rule_values(chk, fb)
    import symmetry

    symmetry.rule_enum_spec(chk, fb, "C03.d", "read")
    chk.assume("the translation kernel itself is decided under C09.d")
    chk.note("not decided: agreement with an independent decoder on concrete files (value-level); style resolution is decided under C05.c")
