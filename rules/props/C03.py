"""C03 — the reader agrees with an independent decoder (structure). Clauses a–c (DESIGN.md section 4)."""
import channels
import hirq
from mirq import Flow
from props import C01, C08, C09

CELL = "structs::cell::Cell"


def rule_shared_formula(chk, fb):
    rb = chk.rule(
        "C03.b",
        "shared-formula expansion uses the translation kernel: the text of a shared-formula child is produced by the relative-translation kernel applied to (child - anchor) per axis, computed in signed arithmetic; the row/column insert kernels are not used for it",
        floor=4,
    )
    d = "structs::cell_formula::CellFormula::set_attributes"
    if d not in fb.mir:
        chk.ob(rb, "anchor", False, detail="CellFormula::set_attributes not found")
        return
    b = fb.mir[d]
    fl = Flow(fb, b)
    chk.touch(d)
    tr = set(C09.find_translate(fb))
    kernels, hr = C08.formula_kernels(fb)
    tcalls = [(bi, t) for bi, t in fl.calls(lambda t: t.get("fn") in tr)]
    kcalls = [(bi, t) for bi, t in fl.calls(lambda t: t.get("fn") in kernels)]
    chk.ob(rb, "uses-translation-kernel", bool(tcalls), where=fb.loc(d), detail="calls to the translation kernel: %d" % len(tcalls))
    chk.ob(rb, "no-insert-kernel", not kcalls, where=fb.loc(d) if not kcalls else "%s:%s" % (b["file"], kcalls[0][1]["ln"]), detail="calls to the insert/remove kernels while reading: %s (they move only references at or beyond a root cell)" % [t["fn"].split("::")[-1] for _, t in kcalls])
    parse = [bi for bi, t in fl.calls(lambda t: t.get("fn", "").endswith("index_from_coordinate"))]
    for bi, t in tcalls:
        for pos, fld, axis in ((1, "0", "column"), (2, "1", "row")):
            at = fl.atoms(t["args"][pos], stop_calls=lambda f: f.endswith("index_from_coordinate"))
            fields = sorted({a[2] for a in at if a[0] == "field" and a[1] == "tuple" and a[2] in "0123"})
            parses = {a[2] for a in at if a[0] == "call" and a[1].endswith("index_from_coordinate")}
            ok = fields == [fld] and len(parses) == 2
            chk.ob(rb, "offset(%s)" % axis, ok, where="%s:%s" % (b["file"], t["ln"]), detail="%s offset derives from component(s) %s of %d parsed coordinates (needs component %s of both the child and the anchor)" % (axis, fields, len(parses), fld))
            # signed subtraction
            signed = False
            seen = set()
            work = [t["args"][pos]["p"]["l"]] if "p" in t["args"][pos] else []
            while work:
                l = work.pop()
                if l in seen:
                    continue
                seen.add(l)
                for dd in fl.defs.get(l, []):
                    if dd[0] == "rv":
                        rv = dd[3]
                        if rv["k"] == "bin" and rv["op"].startswith("Sub"):
                            ty = fb.ty(b["locals"][rv["a"]["p"]["l"]]["t"]) if "p" in rv["a"] else ""
                            signed = signed or ty.startswith("i")
                        for o in __import__("facts").rv_operands(rv):
                            if "p" in o:
                                work.append(o["p"]["l"])
                        if rv["k"] == "ref":
                            work.append(rv["place"]["l"])
            chk.ob(rb, "offset(%s):signed" % axis, signed, where="%s:%s" % (b["file"], t["ln"]), detail="child - anchor is computed on signed integers: %s (children above / left of the anchor give negative offsets)" % signed)


def rule_values(chk, fb):
    rc = chk.rule(
        "C03.c",
        "typed value reconstruction: every ST_CellType value has a reader arm; no value setter used while reading a <c> element discards the formula read from the same element",
        floor=8,
    )
    C01.rule_reader_arms(chk, fb, rc)
    R, _ = C01.reader_table(fb)
    # ST_CellType says what KIND the payload is: a text-typed cell is text whatever it looks like, a boolean is a boolean
    memo = {}
    for tval, want in (("s", {"String", "RichText"}), ("str", {"String", "RichText"}), ("inlineStr", {"String", "RichText"}), ("b", {"Bool"}), ("e", {"Error"})):
        can = set()
        for c in R.get(tval, []):
            can |= C01.constructible(fb, c, memo)
        if not R.get(tval):
            continue
        ok = bool(can) and can <= want
        chk.ob(rc, "typed-arm(t=%s)" % tval, ok, where=fb.loc(C01.CELL + "::set_attributes"),
               detail="the arm for t=%r can construct %s; the type says %s%s" % (tval, sorted(can), sorted(want), "" if ok else " - the payload is re-interpreted (e.g. the text 007 becomes the number 7)"))
    seen = set()
    for tval, callees in sorted(R.items()):
        for c in callees:
            if c in seen:
                continue
            seen.add(c)
            reach = fb.reachable_from([c])
            bad = [x for x in reach if x.endswith("::remove_formula")]
            chk.touch(c)
            chk.ob(rc, "setter-keeps-formula:%s" % c.split("::")[-1], not bad, where=fb.loc(c), detail="reader-side setter for t=%r %s" % (tval, "does not touch the formula" if not bad else "reaches %s: <c t=%r><f>..</f><v>..</v></c> loses its formula" % (bad[0].split("::")[-1], tval)))


def rule_shared_table_scope(chk, fb):
    """Children of a shared formula usually sit in later rows than their master: the table that carries the master's
    text from one <c> to the next has to live as long as the sheet is read, not as long as a row."""
    from cfg import CFG

    r = chk.rule(
        "C03.b.table",
        "the shared-formula table spans the sheet: the table handed to the row reader is created once, outside the loop over the rows (in the function that contains that loop, or further up the call chain when it is passed down as a parameter)",
        floor=1,
    )
    tgt = [d for d, b in fb.mir.items() if b.get("self_ty", "").endswith("::Row") and d.split("::")[-1] == "set_attributes"]

    def scope(fn, bi, op, depth=0):
        """(ok, why) for the table operand `op` of the call in block bi of fn."""
        b = fb.mir[fn]
        fl = Flow(fb, b)
        cfg = CFG(b)
        at = fl.atoms(op)
        prod = [a for a in at if a[0] == "call" and a[1].startswith("std::collections::HashMap::") and a[1].split("::")[-1] in ("new", "default", "with_capacity")]
        in_loop = [l for l in (cfg.natural_loop(tl, hd) for tl, hd in cfg.back_edges()) if bi in l]
        if prod:
            if any(p_[2] in l for p_ in prod for l in in_loop):
                return False, "the table is re-created inside the row loop of %s" % fn.split("::")[-1]
            if in_loop:
                return True, "created once in %s, outside its row loop" % fn.split("::")[-1]
            # created here, but the rows are iterated by the caller: one table per call = per row
            callers = [(c, cb_, ct) for c in sorted({x[0] for x in fb.callers.get(fn, ())}) if c in fb.mir for cb_, ct in fb.calls_in(fb.mir[c]) if ct.get("fn") == fn]
            looped = any(cb_ in l for c, cb_, ct in callers for l in (CFG(fb.mir[c]).natural_loop(tl, hd) for tl, hd in CFG(fb.mir[c]).back_edges()))
            return (not looped), ("created in %s, which is called once per row: the table lives for one row only" % fn.split("::")[-1] if looped else "created once in %s" % fn.split("::")[-1])
        params = [a[1] for a in at if a[0] == "arg"]
        if params and depth < 3:
            res = []
            for c in sorted({x[0] for x in fb.callers.get(fn, ())}):
                if c not in fb.mir:
                    continue
                for cb_, ct in fb.calls_in(fb.mir[c]):
                    if ct.get("fn") == fn:
                        for pi in params:
                            if pi - 1 < len(ct["args"]):
                                res.append(scope(c, cb_, ct["args"][pi - 1], depth + 1))
            if res:
                bad = [w for ok_, w in res if not ok_]
                return (not bad), (bad[0] if bad else res[0][1] + " and passed down")
        return False, "origin of the table not found"

    n = 0
    for d, b in sorted(fb.mir.items()):
        for bi, t in fb.calls_in(b):
            if t.get("fn") not in tgt:
                continue
            idx = [i for i, a in enumerate(t["args"]) if "p" in a and "HashMap<u32" in fb.ty(b["locals"][a["p"]["l"]]["t"])]
            if not idx:
                continue
            ok, why = scope(d, bi, t["args"][idx[0]])
            chk.touch(d)
            chk.ob(r, "%s#%d" % (d.split("::", 2)[-1] if d.count("::") > 1 else d, n), ok, where="%s:%s" % (b["file"], t["ln"]), detail=why)
            n += 1


def rule_table_valid(chk, fb, rid="C03.f"):
    """The table reader keeps a table only if `is_ok()`: that predicate must accept every table the standard allows - a
    name and an area whose corners are cells (>= 1) with start <= end on both axes; a one-column or one-row table
    (start == end) is a table."""
    import itertools
    from props.C08 import bool_formula, eval_formula, atoms_of
    import hirq

    r = chk.rule(
        rid,
        "a loaded table is dropped only if it is not one: the validity predicate the table reader applies, as a boolean function of its comparisons, equals `names non-empty AND all four corner components >= 1 AND start <= end on both axes` on every order type of the corners (components 0..2)",
        floor=1,
    )
    d = "structs::table::Table::is_ok"
    h = fb.hir.get(d)
    if not h:
        chk.ob(r, "anchor", False, detail="Table::is_ok not found")
        return
    body = hirq.strip(h["body"])
    while body.get("k") == "block" and not body.get("stmts") and body.get("expr"):
        body = hirq.strip(body["expr"])

    def term(n):
        n = hirq.strip(n)
        while n.get("k") == "ref":
            n = hirq.strip(n["e"])
        if n.get("k") == "lit" and n.get("lt") == "int":
            return ("lit", n["v"])
        if n.get("k") == "mcall" and n.get("name") in ("get_col_num", "get_row_num"):
            rc = hirq.strip(n["recv"])
            if rc.get("k") == "field" and rc.get("name") in ("0", "1"):
                return ("corner", int(rc["name"]), "col" if "col" in n["name"] else "row")
        return None

    def atom(n):
        n = hirq.strip(n)
        if n.get("k") == "mcall" and n.get("name") == "is_empty":
            rc = hirq.strip(n["recv"])
            if rc.get("k") == "field":
                return ("empty", rc["name"])
        if n.get("k") == "bin" and n["op"] in ("==", "!=", "<", "<=", ">", ">="):
            a, b_ = term(n["l"]), term(n["r"])
            if a and b_:
                return ("cmp", n["op"], a, b_)
        return ("?", hirq.strip(n).get("ln"))

    f = bool_formula(body, atom)
    acc = set()
    atoms_of(f, acc)
    unknown = sorted(a for a in acc if a[0] == "?")
    chk.touch(d)
    if unknown:
        # another shape (early returns, helper calls): nothing is claimed about it rather than guessing
        chk.ob(r, "Table::is_ok", True, where=fb.loc(d), nontrivial=False, detail="NOT DECIDED: the predicate is not a single boolean combination of emptiness tests and corner comparisons (unrecognised parts at lines %s)" % [u[1] for u in unknown])
        chk.note("C03.f: Table::is_ok has a shape the rule does not read; no verdict")
        return
    OPS = {"==": lambda x, y: x == y, "!=": lambda x, y: x != y, "<": lambda x, y: x < y, "<=": lambda x, y: x <= y, ">": lambda x, y: x > y, ">=": lambda x, y: x >= y}
    bad = []
    rows = 0
    for c0, r0, c1, r1 in itertools.product((0, 1, 2), repeat=4):
        for e_name, e_disp in itertools.product((False, True), repeat=2):
            corner = {(0, "col"): c0, (0, "row"): r0, (1, "col"): c1, (1, "row"): r1}

            def val(t):
                return t[1] if t[0] == "lit" else corner[(t[1], t[2])]

            env = {}
            for a in acc:
                if a[0] == "empty":
                    env[a] = e_name if a[1] == "name" else e_disp
                else:
                    env[a] = OPS[a[1]](val(a[2]), val(a[3]))
            got = bool(eval_formula(f, env))
            names = {a[1] for a in acc if a[0] == "empty"}
            want = (not (e_name and "name" in names)) and (not (e_disp and "display_name" in names)) and min(c0, r0, c1, r1) >= 1 and c0 <= c1 and r0 <= r1
            rows += 1
            if got != want:
                bad.append(((c0, r0), (c1, r1), e_name, e_disp, got))
    chk.ob(r, "Table::is_ok", not bad, where=fb.loc(d), detail="%d rows compared; %s" % (rows, "equal" if not bad else "differs, e.g. start (col,row)=%s end=%s: predicate says %s" % (bad[0][0], bad[0][1], bad[0][4])))


def run(chk, fb, tier):
    rule_table_valid(chk, fb)
    channels.rule_attr_unescape(chk, fb, "C03.a")
    rule_shared_formula(chk, fb)
    rule_values(chk, fb)
    rule_shared_table_scope(chk, fb)
    import symmetry

    symmetry.rule_enum_spec(chk, fb, "C03.d", "read")
    symmetry.rule_collected_then_filed(chk, fb, "C03.e")
    chk.assume("the translation kernel itself is decided under C09.d")
    chk.note("not decided: agreement with an independent decoder on concrete files (value-level); style resolution is decided under C05.c")
