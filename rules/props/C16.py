"""C16 — concurrent saves of a workbook or its clones equal sequential saves.
Decided by non-interference: if concurrent savers share no mutable state, every interleaving equals the
sequential run and no lock can be contended. Clauses a–c (DESIGN.md section 4)."""
from cfg import CFG
from mirq import Flow
from props import C12


def rule_statics(chk, fb):
    ra = chk.rule(
        "C16.a",
        "inventory of shared mutable state: statics of the crate are immutable or lazily-initialised once (no `static mut`, no interior-mutable static other than lazy_static/Once cells); the workbook type is Send + Sync only through std synchronisation types",
        floor=1,
    )
    n = 0
    for path, c in sorted(fb.consts.items()):
        ty = c["ty"]
        if any(i in ty for i in ("std::sync::Mutex<", "std::sync::RwLock<", "std::cell::", "std::sync::atomic::")) and "lazy_static" not in path:
            chk.ob(ra, "static:%s" % path, False, where="%s:%s" % (c["file"], c["line"]), detail="interior-mutable global of type %s" % ty)
            n += 1
    chk.ob(ra, "statics", True, where="", detail="%d consts/statics inspected; interior-mutable globals outside lazy_static: %d" % (len(fb.consts), n))


def rule_locks(chk, fb):
    rc = chk.rule(
        "C16.c",
        "lock discipline for every lock acquisition reachable from a save: while a guard on workbook-shared state is alive no other acquisition is reachable (no nesting => no deadlock), and nothing decided under a guard on shared state is used after the guard is released (check-then-act)",
        floor=1,
    )
    roots = C12.save_roots(fb)
    reach = set()
    for r in roots:
        reach |= {d for d in fb.reachable_from([r]) if d in fb.mir}
    acq = C12.ACQ_WRITE + C12.ACQ_READ
    acquiring = {d for d in reach if any(t.get("fn") in acq for _, t in fb.calls_in(fb.mir[d]))}
    # functions from which an acquisition is reachable
    can_acquire = set()
    for d in reach:
        if fb.reachable_from([d]) & acquiring:
            can_acquire.add(d)
    for d in sorted(acquiring):
        b = fb.mir[d]
        cfg = CFG(b)
        fl = Flow(fb, b)
        n = 0
        for bi, t in fl.calls(lambda t: t.get("fn") in acq):
            tags = C12.origin(fb, d, t["args"][0], reach)
            shared = tags != {"local-new"}
            # guard local: result of unwrap() applied to the acquisition's result
            guards = {t["dest"]["l"]}
            for ci, ct in fl.calls():
                if any("p" in a and a["p"]["l"] in guards for a in ct["args"]) and ct.get("fn", "").endswith("unwrap"):
                    guards.add(ct["dest"]["l"])
            drops = [x for x in range(len(b["blocks"])) if b["blocks"][x]["t"]["k"] == "drop" and b["blocks"][x]["t"]["place"]["l"] in guards]
            live = cfg.reachable_strict(bi, avoid=drops)
            nested = []
            for x in sorted(live):
                tt = b["blocks"][x]["t"]
                if tt["k"] == "call" and x != bi:
                    f = tt.get("fn", "")
                    if f in acq or f in can_acquire:
                        nested.append(f.split("::")[-1])
            # check-then-act on shared state: a value computed under the guard flows into a branch after the drop
            cta = False
            if shared:
                for x in range(len(b["blocks"])):
                    if x in live or not drops:
                        continue
                    tt = b["blocks"][x]["t"]
                    if tt["k"] == "switch":
                        at = fl.atoms(tt["op"])
                        if any(a[0] == "call" and a[2] == bi for a in at) and any(cfg.dominates(dd, x) for dd in drops):
                            cta = True
            chk.touch(d)
            ok = (not nested) and not (shared and cta)
            chk.ob(rc, "%s:%s#%d" % (d, t["fn"].split("::")[-1], n), ok, where="%s:%s" % (b["file"], t["ln"]),
                   detail="%s acquisition on %s state; calls that can acquire while the guard lives: %s; decision used after release of a shared guard: %s"
                   % (t["fn"].split("::")[-1], "workbook-shared" if shared else "save-local", nested or "none", cta))
            n += 1


def run(chk, fb, tier):
    rule_statics(chk, fb)
    # C16.b = C12.a/b: a save mutates only objects it created
    C12.rule_no_effect(chk, fb, "C16.b")
    rule_locks(chk, fb)
    C12.rule_clone_complete(chk, fb, "C16.d")
    from props import C13

    C13.rule_tmp_names(chk, fb, C13.entry_points(fb), "C16.e")
    chk.assume("std::sync::RwLock gives mutual exclusion; a save-local object cannot be observed by another thread (it is never stored in shared state)")
    chk.note("schedule quantifier discharged by non-interference, not by enumerating interleavings")
