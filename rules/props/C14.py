"""C14 — encrypted output decrypts to the exact package (structure only). Clauses a–d.
The symbolic normal form of `encrypt` (all callees opaque, random sources distinguished by call site) is matched
against the MS-OFFCRYPTO dataflow template of spec/offcrypto.py; variables of the template unify across all
EncryptionInfo attributes, which gives same-source, operand-order and freshness in one pass."""
import importlib.util
import os

from kernel import Interp, NotKernel, show, freeze
from mirq import Flow
from cfg import CFG

_spec = importlib.util.spec_from_file_location("offcrypto", os.path.join(os.path.dirname(__file__), "..", "..", "spec", "offcrypto.py"))
OC = importlib.util.module_from_spec(_spec)
_spec.loader.exec_module(OC)


def strip_unwrap(t):
    while isinstance(t, tuple) and t and t[0] == "call" and t[1].split("::")[-1] in ("unwrap", "expect", "to_vec", "as_ref", "deref", "clone", "as_slice") and t[2]:
        t = t[2][0]
    while isinstance(t, tuple) and t and t[0] == "field" and isinstance(t[1], tuple) and t[1] and t[1][0] == "downcast" and t[1][2] in ("Continue", "Ok", "Some"):
        # `?` : branch(x) as Continue.0
        inner = t[1][1]
        if inner[0] == "call" and inner[1].endswith("branch"):
            t = inner[2][0]
        else:
            break
        t = strip_unwrap(t)
    return t


def match(tmpl, term, env, path="", trace=None):
    """Unify template with term. Returns None on success or a mismatch description."""
    term = strip_unwrap(term) if tmpl[0] != "ANY" else term
    k = tmpl[0]
    if k == "ANY":
        return None
    if k == "V":
        n = tmpl[1]
        if n in env:
            if freeze(env[n]) != freeze(term):
                return "%s: `%s` is %s here but %s elsewhere" % (path, n, show(term)[:80], show(env[n])[:80])
            return None
        env[n] = term
        return None
    if k == "C":
        if term != ("const", tmpl[1]):
            return "%s: expected constant %r, found %s" % (path, tmpl[1], show(term)[:80])
        return None
    if k == "BLOCKKEY":
        if term != ("const", "hex:" + tmpl[1]):
            return "%s: expected block key %s, found %s" % (path, tmpl[1], show(term)[:80])
        return None
    if k == "UNWRAP":
        return match(tmpl[1], term, env, path, trace)
    if k == "VEC":
        if term[0] == "vec" and len(term[1]) == 1:
            return match(tmpl[1], term[1][0], env, path + "[0]", trace)
        return "%s: expected a one-element buffer list, found %s" % (path, show(term)[:80])
    if k == "KEYBITS":
        # len(key) * 8
        s = show(term)
        if term[0] == "op" and term[1] == "Mul":
            inner = term[2]
            if inner[0] == "call" and inner[1].endswith("::len"):
                return match(tmpl[1], inner[2][0], env, path + ".len", trace)
        if term[0] == "const" and isinstance(term[1], int):
            env.setdefault("_keybits_const", term)
            return None
        return "%s: expected 8*len(key), found %s" % (path, s[:80])
    if k == "F":
        if not (term[0] == "call" and term[1].endswith(tmpl[1])):
            return "%s: expected a call to %s, found %s" % (path, tmpl[1], show(term)[:80])
        args = term[2]
        if len(args) != len(tmpl) - 2:
            return "%s: %s called with %d arguments, template has %d" % (path, tmpl[1], len(args), len(tmpl) - 2)
        for i, (ta, aa) in enumerate(zip(tmpl[2:], args)):
            r = match(ta, aa, env, "%s.%s(arg%d)" % (path, tmpl[1], i), trace)
            if r:
                return r
        return None
    return "%s: unknown template node %s" % (path, k)


def _stream_writer(fb, fn, depth=0):
    """private crypt helper that (transitively) creates the compound file / its streams"""
    b = fb.mir.get(fn)
    if not b or depth > 2 or not fn.startswith("helper::crypt::") or b.get("vis") == "pub":
        return False
    return any(t.get("fn") == "cfb::create" or t.get("fn", "").endswith("create_stream") or _stream_writer(fb, t.get("fn", ""), depth + 1) for _, t in fb.calls_in(b))


def find_encrypt(fb):
    """The pub function of helper::crypt that creates the compound file - itself, or through the private function(s) it
    hands the finished buffers to."""
    for d, b in sorted(fb.mir.items()):
        if b["kind"] == "Fn" and d.startswith("helper::crypt::") and b.get("vis") == "pub" and any(t.get("fn") == "cfb::create" or _stream_writer(fb, t.get("fn", "")) for _, t in fb.calls_in(b)):
            return d
    for d, b in fb.mir.items():
        if b["kind"] == "Fn" and d.startswith("helper::crypt::") and any(t.get("fn") == "cfb::create" for _, t in fb.calls_in(b)):
            return d
    return None


def info_param_map(fb, builder):
    """(element, attribute) -> parameter index of the EncryptionInfo builder, from its normal form."""
    it = Interp(fb, inline=lambda fn: False)
    b = fb.mir[builder]
    list(it.run(builder, [("arg", i + 1) for i in range(b["argc"])]))
    out = {}
    for fn, args, conds in it.events:
        if fn.endswith("write_start_tag") and len(args) >= 3:
            tag = args[1]
            if tag[0] == "call" and tag[2]:
                tag = tag[2][0]
            tagname = tag[1] if tag and tag[0] == "const" else None
            v = args[2]
            if v[0] != "vec":
                continue
            for e in v[1]:
                if e[0] == "tuple" and e[1][0][0] == "const":
                    attr = e[1][0][1]
                    val = e[1][1]
                    ps = set()
                    _args_of(val, ps)
                    lens = ".len" in show(val) or "len(" in show(val)
                    if len(ps) == 1 and not lens:
                        out[(tagname, attr)] = next(iter(ps))
    return out


def _args_of(t, acc):
    if isinstance(t, tuple):
        if t and t[0] == "arg":
            acc.add(t[1])
        else:
            for x in t:
                _args_of(x, acc)


def rule_encrypt(chk, fb):
    ra = chk.rule("C14.a", "fresh, distinct random material: package key, both salts, verifier input and HMAC key each come from their own call of the random source, none is a constant or an alias of another; the random source's Result is consumed", floor=6)
    rb = chk.rule("C14.b", "same source on both sides: every parameter written to EncryptionInfo is the very definition the computation used (template variables unify across all attributes)", floor=15)
    rc = chk.rule("C14.c", "integrity covers the stream that is stored: the buffer fed to HMAC is the buffer written to the EncryptedPackage stream; the stored streams are the info block and the encrypted package", floor=2)
    d = find_encrypt(fb)
    if not d:
        chk.ob(ra, "anchor", False, detail="encrypt function not found")
        return
    b = fb.mir[d]
    chk.touch(d)
    # the private helpers that only write the finished buffers into the compound file are looked into
    it = Interp(fb, inline=lambda fn: _stream_writer(fb, fn))
    it.impure = lambda fn: fb.mir.get(fn) is not None and any("getrandom" in t.get("fn", "") for _, t in fb.calls_in(fb.mir[fn]))
    try:
        paths = list(it.run(d, [("arg", i + 1) for i in range(b["argc"])]))
    except NotKernel as e:
        chk.ob(rb, "normal-form", False, where=fb.loc(d), detail="encrypt is not a kernel: %s" % e)
        return
    builder = None
    bargs = None
    for fn, args, conds in it.events:
        if fn in fb.mir and any(t.get("fn", "").endswith("write_start_tag") for _, t in fb.calls_in(fb.mir[fn])) and len(args) > 10:
            builder, bargs = fn, args
    if not builder:
        chk.ob(rb, "builder", False, where=fb.loc(d), detail="EncryptionInfo builder call not found")
        return
    chk.touch(builder)
    pmap = info_param_map(fb, builder)
    env = {}
    # bind the package bytes: the data parameter of encrypt (a &[u8])
    for (el, attr), tmpl in OC.ENCRYPTION_INFO.items():
        p = pmap.get((el, attr))
        if p is None:
            chk.ob(rb, "%s@%s" % (el, attr), False, where=fb.loc(builder), detail="attribute not written (or not from a single parameter) by the EncryptionInfo builder")
            continue
        term = bargs[p - 1]
        r = match(tmpl, term, env, "%s@%s" % (el, attr))
        chk.ob(rb, "%s@%s" % (el, attr), r is None, where=fb.loc(d), detail=("matches the MS-OFFCRYPTO dataflow: %s" % show(term)[:140]) if r is None else r)
    # password / package bytes are the function's parameters
    for name in ("password", "package_bytes"):
        t = env.get(name)
        ok = t is not None and t[0] == "arg"
        chk.ob(rb, "input:%s" % name, ok, where=fb.loc(d), detail="%s is the caller's argument: %s" % (name, show(t) if t else "unbound"))
    # C14.a freshness
    sites = {}
    for name in OC.RANDOM:
        t = env.get(name)
        ok = t is not None and t[0] == "call" and len(t) > 3 and it.impure(t[1])
        chk.ob(ra, "random:%s" % name, ok, where=fb.loc(d), detail="%s = %s" % (name, show(t) if t else "unbound"))
        if ok:
            sites.setdefault(freeze(t), []).append(name)
    dup = [v for v in sites.values() if len(v) > 1]
    chk.ob(ra, "random:distinct", not dup and len(sites) == len(OC.RANDOM), where=fb.loc(d), detail="aliased random values: %s" % (dup or "none"))
    # the random source's Result is consumed
    for g in sorted({t[1] for t in env.values() if isinstance(t, tuple) and t and t[0] == "call" and len(t) > 3}):
        gb = fb.mir[g]
        fl = Flow(fb, gb)
        for bi, t in fl.calls(lambda t: "getrandom" in t.get("fn", "")):
            used = fl.dest_used(bi)
            chk.touch(g)
            chk.ob(ra, "random-result:%s" % g.split("::")[-1], used, where="%s:%s" % (gb["file"], t["ln"]), detail="Result of %s is %s" % (t["fn"], "consumed" if used else "dropped: a failing RNG yields an all-zero value"))
    # C14.c streams
    written = {}
    for fn, args, conds in it.events:
        if fn.endswith("write_all") and len(args) == 2:
            s = show(args[0])
            for name in OC.STREAMS:
                if "'%s'" % name in s:
                    written[name] = args[1]
    e2 = dict(env)
    for name, tmpl in OC.STREAMS.items():
        t = written.get(name)
        if t is None:
            chk.ob(rc, "stream:%s" % name, False, where=fb.loc(d), detail="no write_all into stream %s" % name)
            continue
        if tmpl == "info":
            ok = strip_unwrap(t)[0] == "call" and strip_unwrap(t)[1] == builder
            chk.ob(rc, "stream:%s" % name, ok, where=fb.loc(d), detail="EncryptionInfo stream holds the builder's output: %s" % ok)
        else:
            r = match(tmpl, t, e2, "stream:%s" % name)
            chk.ob(rc, "stream:%s" % name, r is None, where=fb.loc(d), detail="stored stream is the encrypted package that was MACed" if r is None else r)


def hash_sites(fb, d):
    """hash(...) call sites of fn d with the origin classes of the two concatenated buffers, in order."""
    b = fb.mir[d]
    fl = Flow(fb, b, mutcalls=True)
    cfg = CFG(b)
    loops = set()
    for tail, head in cfg.back_edges():
        loops |= cfg.natural_loop(tail, head)
    out = []
    for bi, t in fl.calls(lambda t: t.get("fn", "").endswith("crypt::hash")):
        # the Vec<&[u8]> argument: find the array aggregate written into its box
        vec_local = t["args"][1]["p"]["l"]
        arr = None
        for bl in b["blocks"]:
            for s in bl["s"]:
                if s["k"] == "assign" and s["rv"]["k"] == "agg" and s["rv"].get("ak") == "array" and s["lhs"].get("pr"):
                    # written through the pointer of the box that becomes vec_local
                    if _same_box(fl, b, s["lhs"]["l"], vec_local):
                        arr = s["rv"]["ops"]
        out.append((bi, t, arr, bi in loops))
    return out, fl, b


def _same_box(fl, b, ptr_local, vec_local):
    a1 = fl.atoms(ptr_local, through_calls=False)
    # vec_local = box_assume_init_into_vec_unsafe(box) ; ptr = box.0.pointer
    for d in fl.defs.get(vec_local, []):
        if d[0] == "call" and d[3]["args"]:
            boxl = fl.deref_root(d[3]["args"][0]["p"]["l"])
            roots = {boxl}
            # locals the pointer derives from
            seen = set()
            work = [ptr_local]
            while work:
                l = work.pop()
                if l in seen:
                    continue
                seen.add(l)
                for dd in fl.defs.get(l, []):
                    if dd[0] == "rv":
                        for o in __import__("facts").rv_operands(dd[3]):
                            if "p" in o:
                                work.append(o["p"]["l"])
            return boxl in seen
    return False


def classify(fl, b, op, names):
    """Origin class of a hash operand: which parameter / local role does it derive from."""
    at = fl.atoms(op, through_calls=True)
    cls = set()
    for a in at:
        if a[0] == "arg":
            cls.add("param:%s" % (b["locals"][a[1]].get("n") or a[1]))
        if a[0] == "call" and a[1].endswith("create_uint32_le_buffer"):
            cls.add("counter")
        if a[0] == "call" and (a[1].endswith("encode_utf16") or a[1].endswith("to_le_bytes")):
            cls.add("password")
        if a[0] == "call" and a[1].endswith("crypt::hash"):
            cls.add("previous")
    return cls


def role_of(cls, salt_param, pw_param, block_param):
    if "counter" in cls and "previous" not in cls:
        return "counter"
    if "password" in cls or ("param:%s" % pw_param) in cls and "previous" not in cls:
        if "previous" not in cls:
            return "password"
    if "previous" in cls:
        return "previous"
    if ("param:%s" % salt_param) in cls:
        return "salt"
    if block_param and ("param:%s" % block_param) in cls:
        return "block_key"
    return "?%s" % sorted(cls)


def rule_chain(chk, fb, rid, d, spec_chain, what):
    sites, fl, b = hash_sites(fb, d)
    chk.touch(d)
    params = [b["locals"][i].get("n") for i in range(1, b["argc"] + 1)]
    tys = [fb.ty(b["locals"][i]["t"]) for i in range(1, b["argc"] + 1)]
    # roles by type/position: password = the &str password (1st), salt = first &[u8], block key = last &[u8] if two
    slices = [params[i] for i, t in enumerate(tys) if t == "&[u8]"]
    salt = slices[0] if slices else None
    block = slices[1] if len(slices) > 1 else None
    pw = params[0]
    got = {}
    order = sorted(sites, key=lambda s: s[1]["ln"])
    stage_names = ["initial", "spin", "final"]
    for (bi, t, arr, in_loop), stage in zip(order, stage_names):
        if arr is None or len(arr) != 2:
            chk.ob(rid, "%s:%s" % (what, stage), False, where="%s:%s" % (b["file"], t["ln"]), detail="could not see the two concatenated buffers of this hash call")
            continue
        r0 = role_of(classify(fl, b, arr[0], params), salt, pw, block)
        r1 = role_of(classify(fl, b, arr[1], params), salt, pw, block)
        got[stage] = (r0, r1)
        want = spec_chain.get(stage)
        ok = want == (r0, r1) and (in_loop == (stage == "spin"))
        chk.ob(rid, "%s:%s" % (what, stage), ok, where="%s:%s" % (b["file"], t["ln"]), detail="hash(%s || %s)%s; standard: %s" % (r0, r1, " inside the spin loop" if in_loop else "", want))
    for stage in spec_chain:
        if stage not in got:
            chk.ob(rid, "%s:%s" % (what, stage), False, where=fb.loc(d), detail="hash stage missing")


LOSSY = ("take", "skip", "step_by", "filter", "filter_map", "take_while", "skip_while", "map_while", "nth", "zip", "truncate", "drain", "dedup", "pop",
         "split_at", "split_off", "trim", "trim_end", "trim_start", "trim_matches", "to_lowercase", "to_uppercase", "to_ascii_lowercase", "to_ascii_uppercase",
         "resize")
LOSSY_ON_STR = ("get", "index", "get_unchecked", "split", "split_once", "rsplit_once", "replace", "replacen", "chars", "char_indices")  # only when applied to the text itself


def password_cut(fb, fn, param, depth=0):
    """Calls that can drop or alter part of the password on its way from parameter `param` of fn to encode_utf16 and on
    to the byte buffer (iterator adaptors and string/vector operations that shorten or rewrite), in fn or in the crate
    function it hands the parameter to.  The hash functions are not looked through."""
    b = fb.mir.get(fn)
    if not b or depth > 3:
        return []
    fl = Flow(fb, b)
    stop = lambda f: f in fb.mir
    out = []
    has_enc = any(t.get("fn", "").endswith("encode_utf16") and t["args"] and ("arg", param) in fl.atoms(t["args"][0], stop_calls=stop) for _, t in fl.calls())
    for bi, t in fl.calls():
        f = t.get("fn", "")
        if f in fb.mir:
            if not has_enc and f != fn:
                for i, a in enumerate(t["args"]):
                    if ("arg", param) in fl.atoms(a, through_calls=False):
                        out += password_cut(fb, f, i + 1, depth + 1)
            continue
        last = f.split("::")[-1]
        on_str = t["args"] and "p" in t["args"][0] and fl.local_ty(t["args"][0]["p"]["l"]).replace("&", "").replace("mut ", "").strip() in ("str", "std::string::String")
        if (last in LOSSY or (last in LOSSY_ON_STR and on_str)) and t["args"] and ("arg", param) in fl.atoms(t["args"][0], stop_calls=stop):
            out.append("%s in %s" % (f.split("::")[-1], fn.split("::")[-1]))
    return out


def utf16le_encoded(fb, fn, param, depth=0):
    """Does parameter `param` (1-based) of fn reach str::encode_utf16 whose units are turned into bytes with to_le_bytes -
    in fn itself or in a crate function it hands the parameter to? Returns (ok, per_char_conversion_seen)."""
    b = fb.mir.get(fn)
    if not b or depth > 3:
        return False, False
    fl = Flow(fb, b)
    bodies = [b] + [fb.mir[c] for c in fb.mir if c.startswith(fn + "::{closure")]
    names = [t.get("fn", "") for bb in bodies for _, t in fb.calls_in(bb)]
    chars = any(n.endswith("str>::chars") for n in names)
    for bi, t in fl.calls():
        f = t.get("fn", "")
        if f.endswith("encode_utf16") and t["args"] and ("arg", param) in fl.atoms(t["args"][0]):
            return any(n.endswith("to_le_bytes") for n in names), chars
    for bi, t in fl.calls():
        f = t.get("fn", "")
        if f in fb.mir and f != fn:
            for i, a in enumerate(t["args"]):
                if ("arg", param) in fl.atoms(a, through_calls=False):
                    ok, ch = utf16le_encoded(fb, f, i + 1, depth + 1)
                    if ok:
                        return True, chars or ch
    return False, chars


def rule_shapes(chk, fb):
    rd = chk.rule("C14.d", "chain shapes and block keys: KDF spin hashes (counter || previous), final hash (previous || block key), IV = H(salt || block key) padded with 0x36, per-segment IV from the little-endian segment index starting at 0 and advancing by 1; segment 4096 bytes; 8-byte length prefix from the input length; the five block keys are those of MS-OFFCRYPTO", floor=10)
    pre = "helper::crypt::"
    # block keys (E1: evaluated constants vs the standard)
    vals = {c.get("value", {}).get("bytes") and "".join("%02x" % x for x in c["value"]["bytes"]) for p, c in fb.consts.items() if p.startswith(pre)}
    for name, hexv in OC.BLOCK_KEYS.items():
        chk.ob(rd, "blockkey:%s" % name, hexv in vals, where="src/helper/crypt.rs", detail="block key %s %s among the crate's constants" % (hexv, "is" if hexv in vals else "is NOT"))
    kd = pre + "convert_password_to_key"
    if kd in fb.mir:
        rule_chain(chk, fb, rd, kd, OC.KEY_DERIVATION_CHAIN, "kdf")
        # the password enters the first hash as UTF-16LE code units (surrogate pairs for characters beyond the BMP)
        kb = fb.mir[kd]
        pw = next((i for i in range(1, kb["argc"] + 1) if fb.ty(kb["locals"][i]["t"]) == "&str" and kb["locals"][i].get("n") == "password"), 1)
        le, chars = utf16le_encoded(fb, kd, pw)
        chk.ob(rd, "kdf:utf16le", le and not chars, where=fb.loc(kd), detail="the password parameter reaches encode_utf16 and its units become bytes through to_le_bytes (here or in a helper it is handed to): %s; per-char truncating conversion present: %s" % (le, chars))
        cut = password_cut(fb, kd, pw)
        chk.ob(rd, "kdf:whole-password", not cut, where=fb.loc(kd), detail="every UTF-16 unit of the password enters the first hash: nothing between the parameter and the byte buffer shortens or rewrites it (%s)" % (cut or "none found"))
    iv = pre + "create_iv"
    if iv in fb.mir:
        sites, fl, b = hash_sites(fb, iv)
        chk.touch(iv)
        ok = False
        detail = "no hash call"
        if sites and sites[0][2] and len(sites[0][2]) == 2:
            a0 = {b["locals"][a[1]].get("n") for a in fl.atoms(sites[0][2][0], through_calls=False) if a[0] == "arg"}
            a1 = {b["locals"][a[1]].get("n") for a in fl.atoms(sites[0][2][1], through_calls=False) if a[0] == "arg"}
            tys = {b["locals"][i].get("n"): i for i in range(1, b["argc"] + 1)}
            # parameter order of create_iv is (alg, salt, block size, block key): salt = first &[u8], block key = second
            slices = [b["locals"][i].get("n") for i in range(1, b["argc"] + 1) if fb.ty(b["locals"][i]["t"]) == "&[u8]"]
            ok = len(slices) == 2 and a0 == {slices[0]} and a1 == {slices[1]}
            detail = "IV = H(%s || %s); parameters (salt, block key) = %s" % (sorted(a0), sorted(a1), slices)
        chk.ob(rd, "iv:shape", ok, where=fb.loc(iv), detail=detail)
        def pads(bb):
            return any(s["k"] == "assign" and any(o.get("i") == OC.IV_PAD_BYTE for o in __import__("facts").rv_operands(s["rv"])) for bl in bb["blocks"] for s in bl["s"]) or any(
                any(a.get("i") == OC.IV_PAD_BYTE for a in t["args"]) for _, t in fb.calls_in(bb)
            )

        # ... in create_iv itself or in the private sizing helper the hash result is handed to
        sizing = [fb.mir[t["fn"]] for _, t in fb.calls_in(b) if t.get("fn", "").startswith(pre) and t["fn"] in fb.mir and not t["fn"].endswith(("::hash", "::hmac")) and fb.mir[t["fn"]].get("vis") != "pub"]
        pad = pads(b) or any(pads(x) for x in sizing)
        chk.ob(rd, "iv:pad", pad, where=fb.loc(iv), detail="short IVs are padded with 0x36: %s" % pad)
    cp = pre + "crypt_package"
    if cp in fb.mir:
        b = fb.mir[cp]
        fl = Flow(fb, b)
        chk.touch(cp)
        consts = {c["value"]["i"] for p, c in fb.consts.items() if p.startswith(pre) and "i" in c.get("value", {})}
        chk.ob(rd, "segment:size", OC.SEGMENT_SIZE in consts and any(("const", OC.SEGMENT_SIZE) in fl.atoms(s["rv"]["a"]) | fl.atoms(s["rv"]["b"]) for bl in b["blocks"] for s in bl["s"] if s["k"] == "assign" and s["rv"]["k"] == "bin" and s["rv"]["op"].startswith("Add")), where=fb.loc(cp), detail="segments advance by %d bytes" % OC.SEGMENT_SIZE)
        # per-segment IV from the counter
        ok_iv = False
        ok_ctr = False
        for bi, t in fl.calls(lambda t: t.get("fn", "").endswith("create_iv")):
            at = fl.atoms(t["args"][3])
            ctr = [a for a in at if a[0] == "call" and a[1].endswith("create_uint32_le_buffer")]
            if ctr:
                ct = b["blocks"][ctr[0][2]]["t"]
                ca = fl.atoms(ct["args"][0])
                names = {fl.local_name(l) for l in range(len(b["locals"])) if fl.local_name(l)}
                # the counter local: a named mutable usize initialised 0 and incremented by 1
                for l, loc in enumerate(b["locals"]):
                    if loc.get("n") and loc.get("mut") and fb.ty(loc["t"]) == "usize":
                        ds = fl.defs.get(l, [])
                        init0 = any(d_[0] == "rv" and d_[3]["k"] == "use" and d_[3]["op"].get("i") == 0 for d_ in ds)
                        inc1 = any(d_[0] == "rv" and d_[3]["k"] == "use" and "p" in d_[3]["op"] and any(dd[0] == "rv" and dd[3]["k"] == "bin" and dd[3]["op"].startswith("Add") and dd[3]["b"].get("i") == 1 and dd[3]["a"].get("p", {}).get("l") == l for dd in fl.defs.get(d_[3]["op"]["p"]["l"], [])) for d_ in ds)
                        if init0 and inc1 and _derives_from_local(fl, b, ct["args"][0], l):
                            ok_ctr = True
                # ... or the position handed out by Iterator::enumerate (0, 1, 2, ... by definition): component 0 of its item
                if any(a[0] == "call" and "Enumerate" in a[1] and a[1].endswith("::next") for a in ca) and ("field", "tuple", "0") in ca and ("field", "tuple", "1") not in ca:
                    ok_ctr = True
                ok_iv = True
        # padding: a segment is padded up to the cipher block only when it is not a multiple of it already - the padding
        # is computed from the remainder and happens under a test of that very remainder (a full extra block makes the last
        # segment of an exact multiple of 4096 overflow the segment buffer)
        cfg_p = CFG(b)
        rems = {s_["lhs"]["l"] for bl in b["blocks"] for s_ in bl["s"] if s_["k"] == "assign" and s_["rv"]["k"] == "bin" and s_["rv"]["op"] == "Rem" and not s_["lhs"].get("pr")}
        rem_calls = {bi for bi, t in fl.calls() if "ops::Rem" in t.get("fn", "") or t.get("fn", "").endswith("::rem")}

        def from_rem(op):
            return ("p" in op and any(_derives_from_local(fl, b, op, r_) for r_ in rems)) or any(a[0] == "call" and a[2] in rem_calls for a in fl.atoms(op))

        pads = []
        for bi, t in fl.calls():
            if t.get("fn", "").split("::")[-1] in ("buffer_alloc", "resize", "extend", "extend_from_slice", "push") and any(from_rem(a) for a in t["args"]):
                pads.append((bi, t))
        okp = bool(pads)
        for bi, t in pads:
            guarded = False
            for x in cfg_p.control_deps_transitive(bi):
                sw = b["blocks"][x]["t"]
                if sw["k"] == "switch" and from_rem(sw["op"]):
                    guarded = True
            okp = okp and guarded
        chk.ob(rd, "segment:pad-on-remainder", okp, where="%s:%s" % (b["file"], pads[0][1].get("ln") if pads else b.get("line")),
               detail="%d padding site(s) computed from the segment's remainder; each guarded by a test of that remainder: %s" % (len(pads), okp))
        chk.ob(rd, "segment:iv-from-index", ok_iv and ok_ctr, where=fb.loc(cp), detail="segment IV derives from LE32(segment index), index starts at 0 and advances by 1: %s" % (ok_iv and ok_ctr))
        # length prefix
        okp = False
        for bi, t in fl.calls(lambda t: t.get("fn", "").endswith("create_uint32_le_buffer")):
            at = fl.atoms(t["args"][0])
            sz = fl.atoms(t["args"][1]) if len(t["args"]) > 1 else set()
            if any(a[0] == "call" and a[1].endswith("::len") for a in at) and (("const", OC.LENGTH_PREFIX) in sz):
                lc = [a for a in at if a[0] == "call" and a[1].endswith("::len")][0]
                la = fl.atoms(b["blocks"][lc[2]]["t"]["args"][0], through_calls=False)
                inp = [i for i in range(1, b["argc"] + 1) if b["locals"][i].get("n") == "input" or i == b["argc"]]
                okp = any(a[0] == "arg" and a[1] == b["argc"] for a in la)
        chk.ob(rd, "prefix:length", okp, where=fb.loc(cp), detail="the %d-byte prefix is LE(len(input)) of the same input that is encrypted: %s" % (OC.LENGTH_PREFIX, okp))


def _derives_from_local(fl, b, op, l):
    seen = set()
    work = [op["p"]["l"]] if "p" in op else []
    while work:
        x = work.pop()
        if x == l:
            return True
        if x in seen:
            continue
        seen.add(x)
        for d in fl.defs.get(x, []):
            if d[0] == "rv":
                rv = d[3]
                if rv["k"] in ("ref",):
                    work.append(rv["place"]["l"])
                for o in __import__("facts").rv_operands(rv):
                    if "p" in o:
                        work.append(o["p"]["l"])
    return False


PLUMBING = ("::deref", "::as_ref", "::as_str", "::borrow", "::as_mut", "::deref_mut")


def rule_password_passthrough(chk, fb, rid, targets, floor):
    """Whatever the caller typed is what gets hashed: on the way from a public entry point to the hashing / key
    derivation function the password is handed on as it is (no truncation, normalisation or re-encoding)."""
    r = chk.rule(
        rid,
        "the password is handed on untouched: at every call of the key-derivation / hashing entry points the password argument is the caller's own string parameter (seen through reference plumbing only), not the result of a computation on it",
        floor=floor,
    )
    for tgt in sorted(targets):
        tb = fb.mir.get(tgt)
        if not tb:
            continue
        pidx = [i for i in range(1, tb["argc"] + 1) if tb["locals"][i].get("n") == "password"]
        if not pidx:
            continue
        pi = pidx[0]
        for c in sorted({x[0] for x in fb.callers.get(tgt, ())}):
            cb = fb.mir.get(c)
            if not cb or cb["file"].startswith("tests") or "::tests::" in c:
                continue
            fl = Flow(fb, cb)
            n = 0
            for bi, t in fl.calls(lambda t: t.get("fn") == tgt):
                if pi - 1 >= len(t["args"]):
                    continue
                prod = _direct(fl, cb, t["args"][pi - 1])
                ok = bool(prod) and all(a[0] == "arg" for a in prod)
                chk.touch(c)
                chk.ob(r, "%s->%s#%d" % (c.split("::", 1)[-1] if c.count("::") else c, tgt.split("::")[-1], n), ok, where="%s:%s" % (cb["file"], t["ln"]),
                       detail="password argument is %s" % ("the caller's parameter" if ok else "computed: %s" % sorted(a[1].split("::")[-1] if a[0] == "call" else str(a) for a in prod)))
                n += 1


def rule_digest_whole_input(chk, fb, rid, floor=2):
    """The chains of C14.d / C15.e say what is concatenated; this says that all of it is digested: the low-level hash and
    HMAC helpers hand every byte of every input buffer to the digest - no partial slice, clamp or cap on the way."""
    r = chk.rule(
        rid,
        "every input byte is digested: in the hash / HMAC helpers of the crypt module nothing between the input buffers and the digest's update takes a part of them (no range index other than `[..]`, no take / truncate / min-clamped copy into a fixed block)",
        floor=floor,
    )
    for d, b in sorted(fb.mir.items()):
        if not d.startswith("helper::crypt::") or "::{closure" in d or b["kind"] != "Fn":
            continue
        if not any(t.get("orig", t.get("fn", "")).endswith(("Update::update", "Mac::update", "Digest::update")) or t.get("fn", "").split("::")[-1] == "update" for _, t in fb.calls_in(b)):
            continue
        cuts = []
        for bd in [d] + [c for c in fb.mir if c.startswith(d + "::{closure")]:
            bb = fb.mir[bd]
            for bi, t in fb.calls_in(bb):
                f = t.get("fn", "")
                o = t.get("orig", f)
                tys = [fb.ty(i) for i in t.get("targs", [])]
                if (o.endswith("ops::Index::index") or o.endswith("ops::IndexMut::index_mut")) and any("Range" in x and "RangeFull" not in x for x in tys):
                    cuts.append("range index (line %s)" % t.get("ln"))
                elif f.split("::")[-1] in ("take", "truncate", "split_at", "first_chunk", "chunks", "min", "copy_from_slice", "get"):
                    cuts.append("%s (line %s)" % (f.split("::")[-1], t.get("ln")))
        chk.touch(d)
        chk.ob(r, d.split("::")[-1], not cuts, where=fb.loc(d), detail="partial-view operations between the inputs and the digest: %s" % (cuts or "none"))


def rule_no_plain_success(chk, fb, rid="C14.f", floor=3):
    """A password entry point that reports success has encrypted: no successful return without the encryption step."""
    from props.C13 import _assigns_err
    from cfg import CFG

    r = chk.rule(
        rid,
        "no success without encryption: in every public function that takes a password and returns a Result, each path to a successful return passes through the call of the package encryption (directly or through a crate function that itself always does)",
        floor=floor,
    )
    ENC = "helper::crypt::encrypt"
    memo = {}

    def always_encrypts(d, depth=0):
        """every non-error exit of d is preceded by a call of the encryption"""
        if d == ENC:
            return True
        if d in memo:
            return memo[d]
        memo[d] = False
        b = fb.mir.get(d)
        if not b or depth > 4:
            return False
        cfg = CFG(b)
        enc = {bi for bi, t in fb.calls_in(b) if t.get("fn") in fb.mir and always_encrypts(t["fn"], depth + 1)}
        errb = {x for x in cfg.reach if (b["blocks"][x]["t"]["k"] == "call" and "from_residual" in b["blocks"][x]["t"].get("fn", "")) or _assigns_err(b, x)}
        ok = bool(enc) and 0 not in enc | errb and not any(e in cfg.reachable(0, avoid=enc | errb) for e in cfg.exits)
        ok = ok or 0 in enc
        memo[d] = ok
        return ok

    # ... and the encryption entry point itself always encrypts: every successful return of `encrypt` follows the call of
    # the segment encryptor (the crate function whose loop derives one IV per segment)
    seg = sorted(f for f, fbody in fb.mir.items() if f.startswith("helper::crypt::") and "::{closure" not in f and any(t.get("fn", "").endswith("create_iv") for _, t in fb.calls_in(fbody)) and CFG(fbody).back_edges())
    eb = fb.mir.get(ENC)
    if eb and seg:
        cfg = CFG(eb)
        core = {bi for bi, t in fb.calls_in(eb) if t.get("fn") in seg}
        errb = {x for x in cfg.reach if (eb["blocks"][x]["t"]["k"] == "call" and "from_residual" in eb["blocks"][x]["t"].get("fn", "")) or _assigns_err(eb, x)}
        ok = bool(core) and not any(e in cfg.reachable(0, avoid=core | errb) for e in cfg.exits)
        chk.touch(ENC)
        chk.ob(r, ENC + ":always", ok, where=fb.loc(ENC), detail="every successful return of the encryption entry point follows the segment encryptor %s: %s" % ([x.split("::")[-1] for x in seg], ok))
    for d, b in sorted(fb.mir.items()):
        if b["kind"] not in ("Fn", "AssocFn") or b.get("vis") != "pub" or b["file"].startswith("tests") or "::{closure" in d:
            continue
        if d.startswith("helper::crypt::") and d != ENC:
            continue  # the protection hashes are C15
        if not any(b["locals"][i].get("n") == "password" and fb.ty(b["locals"][i]["t"]) == "&str" for i in range(1, b["argc"] + 1)):
            continue
        if not fb.ty(b["locals"][0]["t"]).startswith("std::result::Result<"):
            continue
        if d == ENC:
            continue
        chk.touch(d)
        ok = always_encrypts(d)
        chk.ob(r, d, ok, where=fb.loc(d), detail="every successful return follows the encryption call: %s" % ok)


def _direct(fl, b, op, depth=0):
    out = set()
    for a in fl.atoms(op, through_calls=False):
        if a[0] == "call" and a[1].endswith(PLUMBING) and depth < 5:
            t = b["blocks"][a[2]]["t"]
            if t["args"]:
                out |= _direct(fl, b, t["args"][0], depth + 1)
                continue
        if a[0] in ("call", "arg", "field"):
            out.add(a)
    return out


def run(chk, fb, tier):
    rule_encrypt(chk, fb)
    rule_shapes(chk, fb)
    rule_password_passthrough(chk, fb, "C14.e", ["helper::crypt::encrypt"], 2)
    rule_no_plain_success(chk, fb)
    rule_digest_whole_input(chk, fb, "C14.g")
    chk.assume("aes/cbc/sha2/hmac crates implement AES-256-CBC, SHA-512 and HMAC; getrandom yields uniformly random bytes")
    chk.note("not decided: that the produced bytes decrypt under an independent implementation (digest/cipher values)")
