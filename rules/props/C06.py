"""C06 — sheet list and annotations survive save/reload on the same cells. Clauses a–c."""
import hirq
import symmetry
from props import C02, C04

# root elements of the sheet part that the writer emits but that are not read back through an element arm, with reason
NOT_DISPATCHED = {
    "worksheet": "the root element",
    "dimension": "derived from the cells on every save",
    "sheetData": "container; its <row> children are dispatched",
    "phoneticPr": "constant written by the library, not modelled",
    "hyperlinks": "container; its <hyperlink> children are dispatched",
    "drawing": "resolved through the sheet relationships (drawing part), not through the element",
    "legacyDrawing": "resolved through the sheet relationships (vmlDrawing part)",
    "tableParts": "resolved through the sheet relationships (table parts)",
    "tablePart": "resolved through the sheet relationships (table parts)",
    "extLst": "container of x14:dataValidations, which is dispatched",
    "row": None,
    "c": "child of <row>; read by the row reader (symmetry of Cell is decided under C04.b / C01.a)",
    "ext": "wrapper inside extLst; the wrapped x14:dataValidations is dispatched",
}


def emitted(fb, fn):
    """element -> set of empty flags (True / False / '?') for elements emitted by writer fn (directly or as first tag of a callee)."""
    out = {}
    h = fb.hir[fn]

    def flags_of(call):
        a = call.get("args", [])
        if len(a) >= 4:
            v = hirq.strip(a[3])
            if v.get("k") == "lit" and v.get("lt") == "bool":
                return {bool(v["v"])}
        return {"?"}

    def visit(body, depth):
        for c in hirq.calls(body):
            d = c.get("def") or ""
            nm = d.split("::")[-1]
            if nm == "write_start_tag" and len(c.get("args", [])) >= 2:
                v = hirq.lit_value(c["args"][1])
                if isinstance(v, str):
                    out.setdefault(v, set()).update(flags_of(c))
            elif nm.startswith("write_to") and d in fb.hir and depth < 1:
                # only the FIRST tag of the callee is a child of our root
                first = None
                for cc in hirq.calls(fb.hir[d]["body"]):
                    if (cc.get("def") or "").split("::")[-1] == "write_start_tag" and len(cc.get("args", [])) >= 2 and isinstance(hirq.lit_value(cc["args"][1]), str):
                        tag = hirq.lit_value(cc["args"][1])
                        if first is None:
                            first = tag
                        if tag == first:
                            out.setdefault(tag, set()).update(flags_of(cc))

    visit(h["body"], 0)
    return out


def reader_arms(fb, fn):
    """element -> set of event variants ('Start' / 'Empty') whose arm dispatches on it."""
    h = fb.hir[fn]
    out = {}
    for x in hirq.walk(h["body"]):
        if x.get("k") is None and x.get("pat") and "Event::" in str(x["pat"].get("def", "")):
            variant = x["pat"]["def"].split("::")[-1]
            names = set()
            for m, rows in hirq.match_tables(x["body"]):
                for ls, arm in rows:
                    for l in ls or []:
                        if isinstance(l, str) and not l.startswith("path:"):
                            names.add(l)
            for y in hirq.walk(x["body"]):
                if y.get("k") == "bin" and y.get("op") == "==":
                    for a, b_ in ((y["l"], y["r"]), (y["r"], y["l"])):
                        v = symmetry._bytes_or_str(b_)
                        if v is not None and any((c.get("name") or "") in ("name", "local_name") for c in hirq.calls(a)):
                            names.add(v)
            for n in names:
                out.setdefault(n, set()).add(variant)
    return out


def rule_dispatch(chk, fb):
    rb = chk.rule(
        "C06.b.dispatch",
        "element dispatch: every annotation element the sheet writer emits has an arm in the sheet reader, for the event variant (Start for elements with content, Empty for self-closing ones) the writer produces",
        floor=14,
    )
    w, r = "writer::xlsx::worksheet::write", "reader::xlsx::worksheet::read"
    if w not in fb.hir or r not in fb.hir:
        chk.ob(rb, "anchors", False, detail="sheet writer / reader not found")
        return
    chk.touch(w, r)
    em = emitted(fb, w)
    arms = reader_arms(fb, r)
    for tag, flags in sorted(em.items()):
        if tag in NOT_DISPATCHED and NOT_DISPATCHED[tag]:
            chk.ob(rb, "elem:%s" % tag, True, where=fb.loc(w), detail="not dispatched by design: %s" % NOT_DISPATCHED[tag], nontrivial=False)
            continue
        variants = arms.get(tag, set())
        need = set()
        if True in flags or "?" in flags:
            need.add("Empty")
        if False in flags or "?" in flags:
            need.add("Start")
        ok = bool(variants) and need <= variants
        chk.ob(rb, "elem:%s" % tag, ok, where=fb.loc(r), detail="writer emits <%s> as %s; reader arms: %s" % (tag, sorted("empty" if f is True else ("with content" if f is False else "either") for f in flags), sorted(variants) or "none"))


def rule_variants(chk, fb, rid="C06.b.variants"):
    """Crate-wide event-variant agreement. A struct whose writer can emit its root element self-closing WITH attributes
    (the attributes are then the whole content) must be built from the Empty event by every reader that builds it:
    a reader that only has a Start arm for that tag silently drops the element."""
    r = chk.rule(
        rid,
        "self-closing elements are read back: for every struct writer that can emit its root tag self-closing together with attributes, every reader function that dispatches that tag to the struct's set_attributes has an arm for it under Event::Empty",
        floor=40,
    )

    def attrs_empty(n):
        n = hirq.strip(n)
        return n.get("k") in ("call", "mcall") and (n.get("def") or "").endswith("Vec::<T>::new")

    roots = {}
    for d, h in fb.hir.items():
        if not d.split("::")[-1].startswith("write_to"):
            continue
        first = None
        info = []
        for c in hirq.calls(h["body"]):
            if (c.get("def") or "").endswith("write_start_tag") and len(c.get("args", [])) >= 4:
                tag = hirq.lit_value(c["args"][1])
                if not isinstance(tag, str):
                    break
                if first is None:
                    first = tag
                if tag == first:
                    v = hirq.strip(c["args"][3])
                    fl = bool(v["v"]) if v.get("k") == "lit" and v.get("lt") == "bool" else "?"
                    info.append((fl, attrs_empty(c["args"][2]), c.get("ln")))
        if first:
            roots[d] = (first, info)
    arms = {}
    for d in fb.hir:
        if d == "reader::xlsx::worksheet::read":
            continue  # the sheet reader's table is decided by C06.b.dispatch
        a = reader_arms(fb, d)
        if a:
            arms[d] = a
    for d, (t, info) in sorted(roots.items()):
        risky = [(f, e, ln) for f, e, ln in info if f in (True, "?") and not e]
        if not risky:
            continue
        adt = d.rsplit("::", 1)[0]
        setter = adt + "::set_attributes"
        readers = [x for x, a in arms.items() if t in a and any(c == setter for c in hirq.called_defs(fb.hir[x]["body"]))]
        for x in sorted(readers):
            ok = "Empty" in arms[x][t]
            chk.touch(d, x)
            chk.ob(r, "%s<%s>@%s" % (adt.split("::")[-1], t, "::".join(x.split("::")[-2:])), ok, where=fb.loc(x),
                   detail="%s can write <%s .../> self-closing with attributes (line %s); %s dispatches <%s> under %s" % ("::".join(d.split("::")[-2:]), t, risky[0][2], "::".join(x.split("::")[-2:]), t, sorted(arms[x][t])))


def rule_empty_arms(chk, fb, rid="C06.b.empty"):
    """The converse of rule_variants: a reader that consumes events until its own end tag must not be started on a
    self-closing element - there is no end tag, it would eat the siblings that follow (or panic at the end of the part)."""
    from cfg import CFG

    r = chk.rule(
        rid,
        "self-closing elements are not over-read: every set_attributes called from an Event::Empty arm either contains no event-reading loop or is passed `true` for its empty flag",
        floor=150,
    )
    memo = {}

    def loops_reading(d):
        if d not in memo:
            b = fb.mir.get(d)
            res = False
            if b:
                cfg = CFG(b)
                for t_, h_ in cfg.back_edges():
                    body = cfg.natural_loop(t_, h_)
                    if any(bi in body and "read_event" in tt.get("fn", "") for bi, tt in fb.calls_in(b)):
                        res = True
            memo[d] = res
        return memo[d]

    for d, h in sorted(fb.hir.items()):
        n = 0
        for x in hirq.walk(h["body"]):
            if x.get("k") is None and x.get("pat") and "Event::Empty" in str(x["pat"].get("def", "")):
                for c in hirq.calls(x["body"]):
                    cd = c.get("def") or ""
                    if not (cd.endswith("::set_attributes") and cd in fb.mir):
                        continue
                    ok = True
                    why = "the callee reads no further events"
                    if loops_reading(cd):
                        cb = fb.mir[cd]
                        flags = [i for i in range(1, cb["argc"] + 1) if fb.ty(cb["locals"][i]["t"]) == "bool"]
                        lit = None
                        if flags:
                            ai = flags[0] - 1 - (1 if c.get("k") == "mcall" else 0)
                            if 0 <= ai < len(c.get("args", [])):
                                v = hirq.strip(c["args"][ai])
                                lit = v.get("v") if v.get("k") == "lit" else "?"
                        ok = bool(flags) and lit is True
                        why = "the callee loops over events up to its end tag; empty flag passed: %s" % (lit if flags else "it has none")
                    chk.touch(d)
                    chk.ob(r, "%s->%s#%d" % ("::".join(d.split("::")[-2:]), cd.split("::")[-2], n), ok, where="%s:%s" % (h["file"], c.get("ln")), detail=why, nontrivial=loops_reading(cd))
                    n += 1


def rule_sheet_list(chk, fb):
    rs = chk.rule(
        "C06.b.sheets",
        "sheet list: the attributes of <sheet> written by the workbook writer are the ones the workbook reader consumes, and both walk the sheet collection in its own order",
        floor=4,
    )
    w, r = "writer::xlsx::workbook::write", "reader::xlsx::workbook::read"
    if w not in fb.hir or r not in fb.hir:
        return
    chk.touch(w, r)
    hw = fb.hir[w]
    written = set()
    for x, it, var, body in hirq.for_loops(hw["body"]):
        tags = [hirq.lit_value(c["args"][1]) for c in hirq.calls(body) if (c.get("def") or "").endswith("write_start_tag") and len(c.get("args", [])) >= 2]
        if "sheet" in tags:
            for y in hirq.walk(body):
                if y.get("k") == "tup" and len(y.get("es", [])) == 2 and isinstance(hirq.lit_value(y["es"][0]), str):
                    written.add(hirq.lit_value(y["es"][0]))
            src = [c.get("def", "").split("::")[-1] for c in hirq.calls(it)]
            chk.ob(rs, "writer-order", any("sheet_collection" in s for s in src), where="%s:%s" % (hw["file"], x["ln"]), detail="<sheet> elements are emitted by iterating %s (collection order)" % src)
    ra, _ = symmetry.read_names(fb, r)
    for a in sorted(written):
        chk.ob(rs, "sheet@%s" % a, a in ra, where=fb.loc(r), detail="attribute `%s` of <sheet> is written and %s" % (a, "read back" if a in ra else "NEVER read"))
    # reader appends sheets in document order
    hr = fb.hir[r]
    adds = [c for c in hirq.calls(hr["body"]) if (c.get("def") or "").split("::")[-1] in ("add_sheet", "push")]
    chk.ob(rs, "reader-order", bool(adds), where=fb.loc(r), detail="reader appends each <sheet> to the collection as it is met (document order): %s" % bool(adds))


def rule_local_sheet_id(chk, fb):
    """A sheet-scoped name is re-attached on load to the sheet at position localSheetId: what is written for a name kept
    by a sheet has to be that sheet's position at the time of writing (not a stored number, which goes stale when sheets
    are removed or added, and not the sheetId)."""
    from cfg import CFG
    from mirq import Flow
    from props.C02 import _neg_guarded

    r = chk.rule(
        "C06.d",
        "scope follows the owner: for every defined name kept by a sheet the workbook writer either writes no localSheetId (name without one) or writes one that derives from the sheet's position in the loop over the sheet list and from nothing else",
        floor=1,
    )
    # the workbook writer, or the private function of its module the <definedNames> block was moved to
    cands = [x for x, xb in sorted(fb.mir.items()) if x.startswith("writer::xlsx::workbook::") and "::{closure" not in x and any(t.get("fn", "").endswith("DefinedName::write_to") for _, t in fb.calls_in(xb))]
    d = cands[0] if cands else "writer::xlsx::workbook::write"
    b = fb.mir.get(d)
    if not b:
        chk.ob(r, "anchor", False, detail="workbook writer not found")
        return
    chk.touch(d)
    fl = Flow(fb, b)
    cfg = CFG(b)
    n = 0
    for bi, t in fl.calls(lambda t: t.get("fn", "").endswith("DefinedName::write_to")):
        recv = fl.atoms(t["args"][0])
        if not any(a[0] == "call" and a[1].endswith("Worksheet::get_defined_names") for a in recv):
            continue
        why = ""
        ok = bool(_neg_guarded(cfg, fl, b, bi, lambda a: a[1].endswith("DefinedName::has_local_sheet_id")))
        if ok:
            why = "written as stored only when the name has no localSheetId"
        else:
            clones = {a for a in recv if a[0] == "call" and a[1].endswith("Clone>::clone")}
            for si, st in fl.calls(lambda t: t.get("fn", "").endswith("DefinedName::set_local_sheet_id")):
                if not (cfg.dominates(si, bi) and clones & fl.atoms(st["args"][0])):
                    continue
                at = fl.atoms(st["args"][1])
                pos = any(a[0] == "call" and "Enumerate" in a[1] and a[1].endswith("::next") for a in at)
                other = sorted(a[1].split("::")[-1] for a in at if a[0] == "call" and a[1] in fb.mir and not a[1].endswith(("get_sheet_collection_no_check", "get_sheet_collection")))
                other += sorted("%s.%s" % (a[1].split("::")[-1], a[2]) for a in at if a[0] == "field" and a[1] in fb.adts)
                if pos and not other:
                    ok = True
                    why = "localSheetId is set from the loop position before writing"
                else:
                    why = "localSheetId is set from %s" % (other or "something that is not the loop position")
            if not why:
                why = "a name that has a localSheetId is written with the stored number (stale after remove_sheet / insertion: the reader re-attaches it to another sheet or panics past the last one)"
        chk.ob(r, "workbook:sheet-kept-name#%d" % n, ok, where="%s:%s" % (b["file"], t["ln"]), detail=why)
        n += 1


def rule_link_target_verbatim(chk, fb, rid="C06.f"):
    """The target of an external hyperlink is stored in the sheet's relationships as the model holds it: the reader takes
    the Target back as it is, so any rewriting on the way out (percent-encoding, trimming, case) comes back as a different
    URL."""
    from mirq import Flow
    from props.C14 import LOSSY, LOSSY_ON_STR

    r = chk.rule(
        rid,
        "hyperlink targets are written verbatim: in the sheet relationships writer, the Target handed to the relationship writer for a hyperlink derives from the hyperlink's URL getter through no rewriting or shortening string operation",
        floor=1,
    )
    for d, b in sorted(fb.mir.items()):
        if not d.startswith("writer::") or "::{closure" in d:
            continue
        fl = Flow(fb, b)
        n = 0
        for bi, t in fl.calls(lambda t: t.get("fn", "") in fb.mir and t["fn"].split("::")[-1] == "write_relationship"):
            for a in t["args"]:
                at = fl.atoms(a, stop_calls=lambda f: f in fb.mir)
                if not any(x[0] == "call" and x[1].endswith("Hyperlink::get_url") for x in at):
                    continue
                cuts = sorted({x[1].split("::")[-1] for x in at if x[0] == "call" and x[1].split("::")[-1] in LOSSY + LOSSY_ON_STR + ("replace", "replacen", "to_lowercase", "trim") and x[1].split("::")[-1] not in ("get", "index")})
                chk.touch(d)
                chk.ob(r, "%s:hyperlink-target#%d" % (d.split("::", 1)[-1], n), not cuts, where="%s:%s" % (b["file"], t.get("ln")), detail="string operations between the URL and the Target: %s" % (cuts or "none"))
                n += 1


def run(chk, fb, tier):
    # C06.a hyperlink <-> relationship pairing
    C02.rule_rid_pairs(chk, fb)
    # C06.b reader/writer symmetry over all live structs (annotations included) + dispatch + sheet list
    C04.rule_symmetry(chk, fb, tier, "C06.b", files=None, floor=250, label="C06")
    rule_dispatch(chk, fb)
    rule_variants(chk, fb)
    rule_empty_arms(chk, fb)
    symmetry.rule_enum_tables(chk, fb, "C06.b.enums")
    symmetry.rule_omitted_defaults(chk, fb, "C06.b.defaults", exclude=("CellFormula",))  # cell formulas are C01/C04 matter
    symmetry.rule_attr_fields(chk, fb, "C06.b.fields")
    symmetry.rule_parsed_as_stored(chk, fb, "C06.b.parsed")
    symmetry.rule_empty_flag_attrs(chk, fb, "C06.b.emptyattrs")
    symmetry.rule_attr_guards(chk, fb, "C06.b.guards")
    symmetry.rule_empty_covers_children(chk, fb, "C06.b.children")
    symmetry.rule_collected_then_filed(chk, fb, "C06.b.filed")
    symmetry.rule_text_untrimmed(chk, fb, "C06.b.trim")
    symmetry.rule_all_written(chk, fb, "C06.b.written")
    rule_link_target_verbatim(chk, fb)
    rule_sheet_list(chk, fb)
    # C06.c sheet-name uniqueness
    C02.rule_sheet_names(chk, fb, "C06.c")
    rule_local_sheet_id(chk, fb)
    chk.assume("relationship ids pair by position; quick-xml delivers attributes in document order")
    chk.note("not decided: active-tab index after remove_sheet, comment/VML re-join by cell reference (value-level)")
