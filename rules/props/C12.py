"""C12 — a saved file contains only content of the workbook being saved (saving has no side effects).
C16 re-uses these rules (non-interference => every interleaving equals the sequential run)."""
import re

from cfg import CFG
from mirq import Flow

INTERIOR = ("std::sync::RwLock<", "std::sync::Mutex<", "std::cell::RefCell<", "std::cell::Cell<", "std::sync::atomic::", "std::cell::OnceCell<", "std::sync::OnceLock<", "std::cell::UnsafeCell<")
ACQ_WRITE = ("std::sync::RwLock::<T>::write", "std::sync::Mutex::<T>::lock", "std::cell::RefCell::<T>::borrow_mut", "std::sync::RwLock::<T>::try_write", "std::sync::Mutex::<T>::try_lock", "std::sync::RwLock::<T>::get_mut", "std::sync::Arc::<T>::get_mut", "std::sync::Arc::<T, A>::get_mut")
ACQ_READ = ("std::sync::RwLock::<T>::read", "std::cell::RefCell::<T>::borrow", "std::sync::RwLock::<T>::try_read")
NEW = ("std::sync::RwLock::<T>::new", "std::sync::Mutex::<T>::new", "std::cell::RefCell::<T>::new")
PATH_RE = re.compile(r"[a-z_0-9]+(?:::[A-Za-z_0-9]+)+")
WORKBOOK = "structs::spreadsheet::Spreadsheet"


def save_roots(fb):
    """Functions that serialise a &Spreadsheet: crate fns of writer:: whose first parameter is &Spreadsheet."""
    out = []
    for d, b in sorted(fb.mir.items()):
        if d.startswith("writer::") and b["kind"] == "Fn" and b["argc"] >= 1 and fb.ty(b["locals"][1]["t"]) == "&" + WORKBOOK:
            out.append(d)
    return out


def interior_inventory(fb):
    """(adt, field, type) of every field with interior mutability in types reachable from the workbook."""
    seen = set()
    work = [WORKBOOK]
    inv = []
    while work:
        a = work.pop()
        if a in seen or a not in fb.adts:
            continue
        seen.add(a)
        for v in fb.adts[a]["variants"]:
            for f in v["fields"]:
                if any(i in f["ty"] for i in INTERIOR):
                    inv.append((a, f["name"], f["ty"]))
                for p in PATH_RE.findall(f["ty"]):
                    if p in fb.adts and p not in seen:
                        work.append(p)
    return inv, seen


def origin(fb, fn, operand, reach, depth=0, seen=None):
    """Where does the lock object `operand` (in crate fn `fn`) come from? Returns a set of tags:
    'local-new' (created by RwLock::new/.. in a function of the save), 'workbook' (a field of / getter on the workbook),
    'unknown'."""
    seen = seen if seen is not None else set()
    b = fb.mir[fn]
    fl = Flow(fb, b)
    tags = set()
    at = fl.atoms(operand)
    calls = [a for a in at if a[0] == "call"]
    fields = [a for a in at if a[0] == "field"]
    if any(a[1] in NEW for a in calls):
        # created here; if its initial value is a *clone under a read lock* of workbook state that is still a private object
        tags.add("local-new")
        return tags
    for a in fields:
        if a[1] == WORKBOOK:
            tags.add("workbook")
    for a in calls:
        cb = fb.mir.get(a[1])
        if cb and cb.get("self_ty") == WORKBOOK:
            rt = fb.ty(cb["locals"][0]["t"])
            if any(i in rt for i in INTERIOR) or "Arc<" in rt:
                tags.add("workbook")
    args = [a[1] for a in at if a[0] == "arg"]
    if args and depth < 8:
        for caller, bi in set(fb.callers.get(fn, [])):
            if caller not in reach or bi < 0 or (caller, bi) in seen:
                continue
            seen.add((caller, bi))
            t = fb.mir[caller]["blocks"][bi]["t"]
            if t["k"] != "call" or t.get("fn") != fn:
                continue
            for p in args:
                if p - 1 < len(t["args"]):
                    tags |= origin(fb, caller, t["args"][p - 1], reach, depth + 1, seen)
    # closure captures: the upvar is a field of arg 1 of a closure body; resolve in the parent
    if b["kind"] == "Closure" and depth < 8:
        ups = [a[2] for a in at if a[0] == "field" and a[1].startswith("closure:")]
        parent = fn.rsplit("::{closure", 1)[0]
        pb = fb.mir.get(parent)
        if pb and ups:
            for bl in pb["blocks"]:
                for s in bl["s"]:
                    if s["k"] == "assign" and s["rv"]["k"] == "agg" and s["rv"].get("closure") == fn:
                        for u in ups:
                            if u.isdigit() and int(u) < len(s["rv"]["ops"]):
                                tags |= origin(fb, parent, s["rv"]["ops"][int(u)], reach, depth + 1, seen)
    if not tags:
        tags.add("unknown")
    return tags


TRANSPARENT = ("::deref", "::deref_mut", "::as_ref", "::borrow", "Arc<T, A> as std::clone::Clone>::clone")


def _producers(fl, b, op, depth=0):
    """Calls that directly produce the value of an operand; smart-pointer plumbing (deref, as_ref, Arc::clone) is seen through."""
    out = []
    for x in fl.atoms(op, through_calls=False):
        if x[0] != "call":
            continue
        if x[1].endswith(TRANSPARENT) and depth < 5:
            t = b["blocks"][x[2]]["t"]
            if t["args"]:
                out += _producers(fl, b, t["args"][0], depth + 1)
                continue
        out.append(x)
    return out


def rule_no_effect(chk, fb, prefix="C12"):
    ra = chk.rule(
        prefix + ".a",
        "saving has no effect on the workbook: inventory of interior mutability reachable from Spreadsheet by type; no function reachable from a save entry point takes a write lock on (or otherwise mutably borrows) state that originates in the &Spreadsheet argument",
        floor=2,
    )
    rb = chk.rule(
        prefix + ".b",
        "the string table dumped by a save is built by that save: every lock-protected table handed to the sheet/sharedStrings/rels writers is created inside the save (RwLock::new) — at most a private clone, taken under a read lock, of the loaded table",
        floor=1,
    )
    inv, types = interior_inventory(fb)
    for a, f, ty in inv:
        chk.ob(ra, "inventory:%s.%s" % (a.split("::")[-1], f), True, where=fb.adts[a]["file"], detail="interior mutability: %s" % ty, nontrivial=False)
    roots = save_roots(fb)
    reach = set()
    for r in roots:
        reach |= {d for d in fb.reachable_from([r]) if d in fb.mir}
    n = 0
    for d in sorted(reach):
        b = fb.mir[d]
        for bi, t in fb.calls_in(b):
            f = t.get("fn", "")
            if f in ACQ_WRITE and t["args"]:
                chk.touch(d)
                tags = origin(fb, d, t["args"][0], reach)
                ok = tags == {"local-new"}
                chk.ob(ra, "write-acquire:%s#%s" % (d, f.split("::")[-1]), ok, where="%s:%s" % (b["file"], t["ln"]),
                       detail="mutable acquisition %s on an object of origin %s" % (f.split("::")[-1], sorted(tags)),
                       key="write-acquire:%s:%s" % (d, ",".join(sorted(tags))))
                n += 1
    # clones of a workbook share the Arc of the loaded table: nothing outside a save may write through it either
    rcl = chk.rule(
        prefix + ".c",
        "the loaded table is immutable after load: no function outside the save call graph acquires a write lock (or any mutable access) on lock-protected state - clones of a workbook share that state through the Arc, so an in-place update of one shows up in the files of the others",
        floor=1,
    )
    outside = []
    for d, b in sorted(fb.mir.items()):
        if d in reach:
            continue
        for bi, t in fb.calls_in(b):
            if t.get("fn", "") in ACQ_WRITE and not b["file"].startswith("tests"):
                outside.append((d, b, t))
    chk.ob(rcl, "write-acquisitions-outside-save", not outside, where="%s:%s" % (outside[0][1]["file"], outside[0][2]["ln"]) if outside else "src/",
           detail="none: interior-mutable state is only written by a save, on its own table" if not outside else "mutable acquisition(s) outside the save graph: %s" % ["%s (%s)" % (d.split("::", 2)[-1], t["fn"].split("::")[-1]) for d, b, t in outside])
    # &mut Spreadsheet is never formed from the argument (type level): the roots take &Spreadsheet
    for r in roots:
        chk.ob(ra, "signature:%s" % r, True, where=fb.loc(r), detail="takes &Spreadsheet (shared borrow): direct mutation is excluded by the type system", nontrivial=False)
    # C12.b: tables handed out by the archive builder
    for r in roots:
        b = fb.mir[r]
        fl = Flow(fb, b)
        for bi, t in fl.calls():
            f = t.get("fn", "")
            if f not in fb.mir:
                continue
            for i, a in enumerate(t["args"]):
                if "p" not in a:
                    continue
                ty = fb.ty(b["locals"][a["p"]["l"]]["t"])
                if not any(x in ty for x in INTERIOR):
                    continue
                at = fl.atoms(a)
                created = any(x[0] == "call" and x[1] in NEW for x in at)
                from_wb = [x for x in at if x[0] == "call" and fb.mir.get(x[1], {}).get("self_ty") == WORKBOOK and ("Arc<" in fb.ty(fb.mir[x[1]]["locals"][0]["t"]) or any(i_ in fb.ty(fb.mir[x[1]]["locals"][0]["t"]) for i_ in INTERIOR))]
                private = True
                if from_wb:
                    private = created and any(x[0] == "call" and x[1] in ACQ_READ for x in at) and any(x[0] == "call" and x[1].endswith("::clone") and x[1] != "<std::sync::Arc<T, A> as std::clone::Clone>::clone" for x in at) and not any(
                        x[0] == "call" and x[1] in ACQ_WRITE for x in at
                    )
                # must-analysis: the object handed over may not BE the workbook's (on any path): none of the calls that
                # directly produce the value (copies / references followed, calls not entered) is a workbook accessor
                direct = _producers(fl, b, a)
                aliased = [x[1].split("::")[-1] for x in direct if fb.mir.get(x[1], {}).get("self_ty") == WORKBOOK]
                if aliased:
                    private = False
                ok = created and private
                chk.touch(r)
                chk.ob(rb, "%s->%s:arg%d" % (r, f.split("::")[-1], i), ok, where="%s:%s" % (b["file"], t["ln"]),
                       detail="table of type %s: created by this save: %s; touches the workbook's table only through read-lock + clone: %s%s" % (ty[:60], created, private, "; on some path it IS the workbook's own table (%s)" % aliased if aliased else ""))


def rule_initial(chk, fb):
    ri = chk.rule(
        "C12.b.init",
        "the table a save dumps starts empty: its initial content does not come from the workbook's loaded table (which may hold strings no cell uses any more)",
        floor=1,
    )
    for r in save_roots(fb):
        b = fb.mir[r]
        fl = Flow(fb, b)
        for bi, t in fl.calls(lambda t: t.get("fn") in NEW):
            at = fl.atoms(t["args"][0])
            from_wb = any(x[0] == "call" and fb.mir.get(x[1], {}).get("self_ty") == WORKBOOK and "Arc<" in fb.ty(fb.mir[x[1]]["locals"][0]["t"]) for x in at)
            chk.touch(r)
            chk.ob(ri, "%s:initial-table" % r, not from_wb, where="%s:%s" % (b["file"], t["ln"]),
                   detail="initial content of the per-save table %s" % ("is (on some path) a copy of the workbook's loaded table" if from_wb else "is empty / built by this save"),
                   key="%s:initial-table%s" % (r, ":copied-from-loaded-table" if from_wb else ""))


def rule_table_choice(chk, fb, prefix="C12"):
    """The loaded table may be copied only because a raw sheet needs its indexes — and then it MUST be copied:
    the branch that copies is taken exactly when some sheet is still raw."""
    from kernel import Interp, NotKernel, show

    rt = chk.rule(
        prefix + ".b.choice",
        "table choice follows the raw sheets: the save starts from a copy of the loaded string table exactly when some sheet is not deserialised (whose raw XML holds indexes into it), and from an empty table otherwise",
        floor=1,
    )
    sites = []
    for r in save_roots(fb):
        b0 = fb.mir[r]
        fl0 = Flow(fb, b0)
        for bi, t in fl0.calls(lambda t: t.get("fn") in NEW):
            arg = t["args"][0]
            if "p" not in arg:
                continue
            defs0 = fl0.defs.get(arg["p"]["l"], [])
            helper = [d_[3]["fn"] for d_ in defs0 if d_[0] == "call" and d_[3].get("fn") in fb.mir and "SharedStringTable" in fb.ty(fb.mir[d_[3]["fn"]]["locals"][0]["t"]) and fb.mir[d_[3]["fn"]]["kind"] == "Fn"]
            if len(defs0) == 1 and helper:
                sites.append((r, helper[0], 0))  # the choice is made by a helper that returns the table
            else:
                sites.append((r, r, arg["p"]["l"]))
    for r, fn_, loc_ in sites:
        b = fb.mir[fn_]
        fl = Flow(fb, b)
        cfg = CFG(b)
        for _once in (0,):
            defs = fl.defs.get(loc_, [])
            clone_blocks = [d[1] for d in defs if d[0] == "call" and d[3].get("fn", "").endswith("::clone")]
            fresh_blocks = [d[1] for d in defs if d[0] == "call" and (d[3].get("fn", "").endswith("::default") or d[3].get("fn", "").endswith("::new"))]
            if not clone_blocks or not fresh_blocks:
                continue
            # the controlling switch
            deps_c = cfg.control_deps_transitive(clone_blocks[0])
            deps_f = cfg.control_deps_transitive(fresh_blocks[0])
            common = [x for x in deps_c if x in deps_f and deps_c[x] != deps_f[x]]
            if not common:
                chk.ob(rt, "%s:choice" % r, False, where=fb.loc(r), detail="could not find the branch that selects between copy and empty table")
                continue
            sw = common[0]
            swt = b["blocks"][sw]["t"]
            # polarity: which value of the condition leads to the clone
            clone_edge = deps_c[sw]
            clone_on = None
            for val, tgt in swt["targets"]:
                if tgt == clone_edge:
                    clone_on = bool(val)
            if clone_on is None and swt["otherwise"] == clone_edge:
                clone_on = not any(v == 1 for v, _ in swt["targets"]) if swt["targets"] else True
                if all(v == 0 for v, _ in swt["targets"]):
                    clone_on = True
            # the quantifier and the predicate
            at = fl.atoms(swt["op"])
            q = [a for a in at if a[0] == "call" and a[1].split("::")[-1] in ("any", "all")]
            if not q:
                chk.ob(rt, "%s:choice" % r, False, where="%s:%s" % (b["file"], swt["ln"]), detail="the selecting condition is not a quantifier over the sheets")
                continue
            quant = q[0][1].split("::")[-1]
            qt = b["blocks"][q[0][2]]["t"]
            clos = [x[1] for a_ in qt["args"][1:] for x in fl.atoms(a_) if x[0] == "cfn"]
            pred = None
            if clos and clos[0] in fb.mir:
                it = Interp(fb, inline=lambda fn: False)
                try:
                    cb = fb.mir[clos[0]]
                    paths = list(it.run(clos[0], [("arg", i + 1) for i in range(cb["argc"])]))
                    if len(paths) == 1:
                        ret = paths[0][0]
                        neg = False
                        while ret[0] == "not":
                            neg = not neg
                            ret = ret[1]
                        if ret[0] == "call" and ret[1].endswith("is_deserialized"):
                            pred = "raw" if neg else "deserialized"
                except NotKernel:
                    pass
            # copy condition as a statement about the sheets
            #   any(raw) & clone_on=True      -> exists raw            OK
            #   all(des) & clone_on=False     -> not all des = exists raw   OK
            ok = (quant == "any" and pred == "raw" and clone_on is True) or (quant == "all" and pred == "deserialized" and clone_on is False)
            chk.touch(r)
            chk.ob(rt, "%s:choice" % r, ok, where="%s:%s" % (b["file"], swt["ln"]),
                   detail="the loaded table is copied when %s%s(sheet is %s); required: exactly when some sheet is raw" % ("" if clone_on else "NOT ", quant, pred))


def rule_clone_complete(chk, fb, rid):
    """A clone of the workbook is the same workbook: raw (not yet deserialized) sheets of the clone keep indexes into the
    string table they were loaded with, so the clone has to carry that table, like every other field."""
    r = chk.rule(
        rid,
        "a clone carries everything: Clone for the workbook type (and any hand-written Clone of a model struct) produces each field of the result from the same field of the original - in particular the shared string table that raw sheets index into",
        floor=10,
    )
    WB = "structs::spreadsheet::Spreadsheet"
    n_hand = 0
    for d, b in sorted(fb.mir.items()):
        if not (d.endswith("::clone") and b.get("trait", "").endswith("clone::Clone")):
            continue
        adt = b.get("self_ty")
        if adt not in fb.adts or fb.adts[adt]["kind"] != "struct":
            continue
        if b.get("derived") and adt != WB:
            continue
        n_hand += 0 if b.get("derived") else 1
        chk.touch(d)
        read = set()
        bodies = [b] + [fb.mir[c] for c in fb.mir if c.startswith(d + "::{closure")]
        for bb in bodies:
            for bl in bb["blocks"]:
                for st in bl["s"]:
                    if st["k"] != "assign":
                        continue
                    places = [st["rv"].get("place")] if st["rv"]["k"] in ("ref", "rawptr") else [o.get("p") for o in __import__("facts").rv_operands(st["rv"])]
                    for pl in places:
                        if pl:
                            read |= {e["f"] for e in pl.get("pr", []) if isinstance(e, dict) and e.get("of") == adt}
        for f in fb.adts[adt]["variants"][0]["fields"]:
            ok = f["name"] in read
            chk.ob(r, "%s.%s" % (adt.split("::")[-1], f["name"]), ok, where=fb.loc(d),
                   detail="%s Clone %s field `%s` of the original" % ("derived" if b.get("derived") else "hand-written", "reads" if ok else "never reads (the clone gets a fresh value for)", f["name"]))
    chk.note("%s: %d hand-written Clone impls of structs inspected besides the workbook's" % (rid, n_hand))


def run(chk, fb, tier):
    rule_clone_complete(chk, fb, "C12.f")
    rule_no_effect(chk, fb, "C12")
    rule_initial(chk, fb)
    rule_table_choice(chk, fb, "C12")
    chk.assume("std::sync::RwLock / Arc behave as documented; Clone of SharedStringTable is a deep copy (derived)")
    chk.note("residual, by design of the repair: a lazily opened workbook with an unloaded sheet must keep the loaded table (incl. strings no cell uses any more) because raw sheet XML refers to its indexes")
