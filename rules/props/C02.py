"""C02 — written files are valid packages. Clauses a–h (DESIGN.md section 4). Typed HIR + call graph."""
import importlib.util
import os
import re

import channels
import hirq
import ridseq
import symmetry
from cfg import CFG
from mirq import Flow
from props import C01

HERE = os.path.dirname(__file__)


def _load(name):
    spec = importlib.util.spec_from_file_location(name, os.path.join(HERE, "..", "..", "spec", name + ".py"))
    m = importlib.util.module_from_spec(spec)
    spec.loader.exec_module(m)
    return m


OPC = _load("opc")
ECMA = _load("ecma376")
SINKS = ("add_writer", "add_bin")


def const_val(fb, path):
    c = fb.consts.get(path)
    if c and "value" in c:
        return c["value"].get("s")
    return None


def render(fb, n, lets, depth=0):
    """Template string of a part-name / target expression: literals and constants verbatim, variables as {}."""
    n = hirq.strip(n)
    k = n.get("k")
    if k == "lit" and n.get("lt") == "str":
        return n["v"]
    if k == "path" and n.get("dk") == "Const":
        return const_val(fb, n["def"]) or "{}"
    if k == "path" and n.get("lid") in lets and depth < 4:
        return render(fb, lets[n["lid"]], lets, depth + 1)
    if (n.get("mac") and n["mac"][0] == "format") or (k == "call" and n.get("def") == "std::hint::must_use"):
        pieces = hirq.format_node(n)
        if pieces:
            s = ""
            for kind, v in pieces:
                s += v if kind == "lit" else (render(fb, v, lets, depth + 1) if v is not None else "{}")
            return s
    if k in ("mcall", "call") and (n.get("def") or "") in fb.hir and fb.ty(n.get("t", 0)) == "std::string::String" and depth < 3:
        # a crate helper that builds the name: render its tail expression (its parameters become {})
        hb = fb.hir[n["def"]]["body"]
        tail = hb.get("expr") if hb.get("k") == "block" else hb
        if tail is not None:
            t = render(fb, tail, lets_of(fb.hir[n["def"]]), depth + 1)
            if t != "{}":
                return t
    if k in ("mcall", "call") and (n.get("name") in ("as_str", "to_string", "as_ref", "into", "clone", "to_owned") or (n.get("def") or "").endswith("::from")):
        inner = n.get("recv") or (n.get("args") or [None])[0]
        if inner:
            return render(fb, inner, lets, depth + 1)
    return "{}"


def lets_of(h):
    return {y["pat"].get("lid"): y["init"] for y in hirq.walk(h["body"]) if y.get("k") == "let" and y.get("init") and y["pat"].get("k") == "bind"}


def closure_templates(fb, d, h, name_expr, lets):
    """Name templates of a sink whose name is `param(...)`, a call of a closure parameter of fn d: rendered from the
    closure each caller passes."""
    n = hirq.strip(name_expr)
    for _ in range(4):
        if n.get("k") == "path" and n.get("lid") in lets:
            n = hirq.strip(lets[n["lid"]])
    if not (n.get("k") == "call" and n.get("lid") is not None and not n.get("def")):
        return []
    pidx = [i for i, p in enumerate(h["params"]) if p.get("lid") == n["lid"]]
    if not pidx:
        return []
    pi = pidx[0]
    has_self = h["params"] and h["params"][0].get("name") == "self"
    out = []
    for d2, h2 in fb.hir.items():
        for c in hirq.calls(h2["body"]):
            if c.get("def") == d:
                args = c.get("args", [])
                ai = pi - 1 if (has_self and c.get("k") == "mcall") else pi
                if 0 <= ai < len(args):
                    a = hirq.strip(args[ai])
                    if a.get("k") == "closure":
                        body = a["body"]
                        e = body.get("expr") if body.get("k") == "block" and not body.get("stmts") else body
                        out.append((render(fb, e, lets_of({"body": body})), "%s:%s" % (h2["file"], c["ln"]), d2))
    return out


def part_templates(fb):
    """(template, where, fn) for every part the writer can create under a name it builds itself."""
    out = []
    for d, h in sorted(fb.hir.items()):
        if not (d.startswith("writer::") or d.startswith("structs::writer_manager::") or d.startswith("structs::raw::raw_worksheet")):
            continue
        lets = lets_of(h)
        for c in hirq.calls(h["body"]):
            nm = (c.get("def") or "").split("::")[-1]
            args = c.get("args", [])
            if nm in SINKS and args and not d.endswith("::" + nm):
                t = render(fb, args[0], lets)
                if t == "{}":
                    # the name is produced by a naming closure the callers pass in: one template per caller
                    ts = closure_templates(fb, d, h, args[0], lets)
                    if ts:
                        out.extend((t2, w, d2) for t2, w, d2 in ts)
                        continue
                out.append((t, "%s:%s" % (h["file"], c["ln"]), d))
            elif nm in ("make_file_from_writer", "make_file_from_bin") and args and d.startswith("writer::xlsx::"):
                t = render(fb, args[0], lets)
                out.append((t, "%s:%s" % (h["file"], c["ln"]), d))
    return out


def override_rules(fb):
    """Ordered (prefix, [content types]) rules of the content-type override function, plus whether a fallback exists."""
    for d, h in fb.hir.items():
        if d.split("::")[-1] == "make_context_type_override":
            rules = []
            for x in hirq.walk(h["body"]):
                if x.get("k") == "if":
                    cs = [c for c in hirq.calls(x["cond"]) if c.get("k") == "mcall" and c.get("name") == "starts_with"]
                    if cs and hirq.lit_value(cs[0]["args"][0]):
                        prefix = hirq.lit_value(cs[0]["args"][0])
                        types = [const_val(fb, y["def"]) for y in hirq.walk(x["then"]) if y.get("k") == "path" and y.get("dk") == "Const"]
                        rules.append((prefix, [t for t in types if t], x["ln"]))
            fallback = any(c.endswith("get_backup_context_types") for c in hirq.called_defs(h["body"]))
            if not rules:
                # table form: an array of (prefix literal, content-type constant) pairs scanned in order with starts_with
                lets = lets_of(h)

                def types_of(n, depth=0):
                    n = hirq.strip(n)
                    if n.get("k") == "path" and n.get("dk") == "Const":
                        v = const_val(fb, n["def"])
                        return [v] if v else []
                    if n.get("k") == "path" and n.get("lid") in lets and depth < 3:
                        return [t for y in hirq.walk(lets[n["lid"]]) if y.get("k") == "path" and y.get("dk") == "Const" for t in [const_val(fb, y["def"])] if t]
                    return []

                uses_prefix_test = any(c.get("k") == "mcall" and c.get("name") == "starts_with" for c in hirq.calls(h["body"]))
                for x in hirq.walk(h["body"]):
                    if x.get("k") == "array" and uses_prefix_test:
                        rows = []
                        for e in x.get("es", []):
                            e = hirq.strip(e)
                            if e.get("k") == "tup" and len(e.get("es", [])) == 2 and isinstance(hirq.lit_value(e["es"][0]), str):
                                rows.append((hirq.lit_value(e["es"][0]), types_of(e["es"][1]), e.get("ln")))
                        if len(rows) >= 5 and all(r_[0].startswith("/") for r_ in rows):
                            rules = rows
            return d, rules, fallback
    return None, [], False


def defaults(fb):
    """extension -> content type from the Default tables of the content-types writer."""
    out = {}
    for d, h in fb.hir.items():
        if d == "writer::xlsx::content_types::write":
            for x in hirq.walk(h["body"]):
                if x.get("k") == "tup" and len(x.get("es", [])) == 2:
                    a, b = hirq.strip(x["es"][0]), hirq.strip(x["es"][1])
                    ext = a.get("v") if a.get("k") == "lit" else None
                    ct = b.get("v") if b.get("k") == "lit" else (const_val(fb, b.get("def")) if b.get("k") == "path" and b.get("dk") == "Const" else None)
                    if isinstance(ext, str) and isinstance(ct, str) and "/" in ct and ext.isalnum():
                        out[ext] = ct
    return out


def rule_content_types(chk, fb):
    ra = chk.rule("C02.a", "content types: every part name the writer can create is given, by the extracted override rules (last matching prefix wins) or the Default extension tables, the content type the standard assigns to that part kind", floor=20)
    d, rules, fallback = override_rules(fb)
    dfl = defaults(fb)
    chk.touch(d)
    seen = set()
    for t, where, fn in part_templates(fb):
        if t in seen or t == "{}":
            continue
        seen.add(t)
        want = OPC.expected(t)
        if want == "self" or want is None:
            continue
        name = "/" + t.replace("{}", "1")
        got = None
        for prefix, types, ln in rules:
            if name.startswith(prefix):
                got = set(types)
        how = "override"
        if got is None:
            ext = name.rsplit(".", 1)[-1]
            got = {dfl[ext]} if ext in dfl else None
            how = "default(.%s)" % ext
        ok = want != "unknown" and got is not None and got == set(want) if isinstance(want, set) else False
        chk.ob(ra, "part:%s" % t, ok, where=where, detail="part %s gets %s via %s; standard: %s" % (t, sorted(got) if got else None, how, sorted(want) if isinstance(want, set) else want))
    chk.ob(ra, "fallback", fallback, where=fb.loc(d), detail="parts carried over from the source file keep their recorded content type (backup table consulted): %s" % fallback)
    # the prefixes are not wider than the kind they stand for: neighbours of another kind are left to the recorded type
    for name, want in sorted(OPC.CARRIED.items()):
        got = None
        hit = None
        for prefix, types, ln in rules:
            if ("/" + name).startswith(prefix):
                got, hit = set(types), prefix
        ok = got is None or (want is not None and got == {want})
        chk.ob(ra, "carried:%s" % name, ok, where=fb.loc(d), detail="a carried-over part %s %s" % (name, "matches no override prefix (keeps its recorded / default type)" if got is None else "is caught by prefix %r and declared %s; its own type is %s" % (hit, sorted(got), want)))


def rule_targets(chk, fb):
    rb = chk.rule("C02.b", "relationship targets exist: every internal relationship target the writer emits, resolved against the directory of its source part, is the name template of a part the writer creates; the numbering variable of both comes from the same allocation", floor=10)
    templates = {t for t, _, _ in part_templates(fb)}
    norm = {t.replace("{}", "N") for t in templates}
    for d, h in sorted(fb.hir.items()):
        if not d.startswith("writer::xlsx::") or not d.endswith("::write"):
            continue
        lets = lets_of(h)
        # the rels part this function writes
        rels_part = None
        for c in hirq.calls(h["body"]):
            nm = (c.get("def") or "").split("::")[-1]
            if nm in SINKS + ("make_file_from_writer",) and c.get("args"):
                t = render(fb, c["args"][0], lets)
                if t.endswith(".rels"):
                    rels_part = t
        if not rels_part:
            continue
        src = OPC.source_of_rels(rels_part.replace("{}", "N"))
        n = 0
        dead = dead_nodes(fb, h)
        for c in hirq.calls(h["body"]):
            if (c.get("def") or "").endswith("write_relationship") and len(c.get("args", [])) >= 5:
                if id(c) in dead:
                    chk.ob(rb, "%s:target(dead)" % d.split("::")[-2], True, where="%s:%s" % (h["file"], c["ln"]), detail="relationship under a guard that reads only fields nothing ever assigns (dead branch): %s" % dead[id(c)], nontrivial=False)
                    continue
                mode = hirq.lit_value(c["args"][4])
                if mode == "External":
                    continue
                tgt = render(fb, c["args"][3], lets)
                if tgt == "{}":
                    continue  # data-dependent target (pivot cache definition carried over)
                res = OPC.resolve(src, tgt.replace("{}", "N"))
                ok = res in norm or (res.startswith("xl/media/") and "xl/media/{}" in templates)
                chk.touch(d)
                chk.ob(rb, "%s:target(%s)" % (d.split("::")[-2], tgt), ok, where="%s:%s" % (h["file"], c["ln"]), detail="target %s of %s resolves to %s, %s" % (tgt, rels_part, res, "a part the writer creates" if ok else "which NO writer creates"))
                n += 1


def never_written(fb, adt, field):
    for d, b in fb.mir.items():
        if b.get("derived") or d.endswith("::default") or d.endswith("::clone"):
            continue
        for bl in b["blocks"]:
            for st in bl["s"]:
                if st["k"] != "assign":
                    continue
                pr = st["lhs"].get("pr", [])
                if any(isinstance(e, dict) and e.get("of") == adt and e.get("f") == field for e in pr):
                    return False
                if st["rv"]["k"] == "ref" and st["rv"].get("mut") and any(isinstance(e, dict) and e.get("of") == adt and e.get("f") == field for e in st["rv"]["place"].get("pr", [])):
                    return False
                if st["rv"]["k"] == "agg" and st["rv"].get("adt") == adt and not d.endswith("::default"):
                    return False
    return True


def dead_nodes(fb, h):
    """ids of HIR nodes that sit in the `then` branch of an `if` whose condition only consults crate getters reading never-assigned fields."""
    from e2 import direct_fields

    out = {}
    for x in hirq.walk(h["body"]):
        if x.get("k") != "if":
            continue
        cs = [c for c in hirq.calls(x["cond"]) if (c.get("def") or "").startswith("structs::")]
        if len(cs) != 1 or cs[0]["def"] not in fb.mir:
            continue
        g = cs[0]["def"]
        adt = fb.mir[g].get("self_ty")
        fields = direct_fields(fb.mir[g], adt) if adt else set()
        if fields and all(never_written(fb, adt, f) for f in fields) and len(fb.mir[g]["blocks"]) < 8:
            for y in hirq.walk(x["then"]):
                out[id(y)] = "%s reads %s" % (g.split("::")[-1], sorted(fields))
    return out


REL_SUFFIX = {"hyperlink": "hyperlink", "pageSetup": "printerSettings", "drawing": "drawing", "legacyDrawing": "vmlDrawing", "tablePart": "table", "sheet": "worksheet", "pivotCache": "pivotCacheDefinition", "oleObject": "oleObject"}


def rule_rid_pairs(chk, fb):
    rc = chk.rule("C02.c", "relationship ids agree between a part and its .rels: the ordered sequence of id-consuming elements (kind, loop, guard) in the part writer equals the prefix of the sequence of relationships in the rels writer; every consumed id is followed by an increment made under exactly the same conditions and in the same loop (an id advances when, and only when, one was consumed)", floor=7)
    rd = chk.rule("C02.d", "deterministic pairing: every loop that consumes relationship ids iterates an ordered collection (not a HashMap/HashSet, whose order differs between the two passes)", floor=4)
    pairs = [("writer::xlsx::worksheet::write", "writer::xlsx::worksheet_rels::write"), ("writer::xlsx::workbook::write", "writer::xlsx::workbook_rels::write")]
    for xml_fn, rels_fn in pairs:
        if xml_fn not in fb.hir or rels_fn not in fb.hir:
            chk.ob(rc, "%s<->rels" % xml_fn, False, detail="writer functions not found")
            continue
        sx = ridseq.Seq(fb, xml_fn).run()
        sr = ridseq.Seq(fb, rels_fn).run()
        chk.touch(xml_fn, rels_fn)
        ax, ar = sx.allocations(), sr.allocations()
        short = xml_fn.split("::")[-2]
        for i, (e, followed) in enumerate(ax):
            kind = REL_SUFFIX.get(e["label"], e["label"])
            if i >= len(ar):
                chk.ob(rc, "%s:%s#%d" % (short, e["label"], i), False, where="%s:%s" % (fb.hir[xml_fn]["file"], e["ln"]), detail="element %s consumes an id but the rels writer has no %d-th relationship" % (e["label"], i + 1))
                continue
            r, rf = ar[i]
            rtype = const_val(fb, r["label"]) if isinstance(r["label"], str) and "::" in r["label"] else r["label"]
            kind_ok = isinstance(rtype, str) and rtype.rstrip("/").rsplit("/", 1)[-1] == kind
            gx = _norm_guards(e)
            gr = _norm_guards(r)
            guard_ok = gx == gr
            # both passes walk the SAME collection accessor (two differently ordered views of the same items do not pair)
            def _src(ev):
                names = frozenset(x for lp in ev["loops"] for x in lp)
                return frozenset() if any(str(x).startswith("param:") for x in names) else names  # a list handed in by the caller: not comparable here
            loop_ok = bool(e["loops"]) == bool(r["loops"]) and (not e["loops"] or not _src(e) or not _src(r) or _src(e) == _src(r))
            ok = kind_ok and guard_ok and loop_ok and followed and rf
            chk.ob(rc, "%s:%s#%d" % (short, e["label"], i), ok, where="%s:%s" % (fb.hir[xml_fn]["file"], e["ln"]),
                   detail="element <%s> (guards %s, loop over %s) <-> relationship #%d of type …/%s (guards %s, loop over %s); increment follows: %s/%s" % (e["label"], sorted(gx), sorted(_src(e)) or bool(e["loops"]), i + 1, str(rtype).rsplit("/", 1)[-1], sorted(gr), sorted(_src(r)) or bool(r["loops"]), followed, rf))
        # deterministic order of id-consuming loops
        for fn, seq in ((xml_fn, sx), (rels_fn, sr)):
            h = fb.hir[fn]
            for x, it, var, body in hirq.for_loops(h["body"]):
                evs = [e for e, _ in seq.allocations() if e["loops"] and _contains_ln(body, e["ln"])]
                if not evs:
                    continue
                ty = fb.ty(hirq.strip(it).get("t", 0)) if "t" in hirq.strip(it) else ""
                unordered = "std::collections::HashMap<" in ty or "std::collections::HashSet<" in ty or "hash_map::" in ty or "hash_set::" in ty
                chk.ob(rd, "%s:loop(%s)" % (fn.split("::")[-2], evs[0]["label"] if not str(evs[0]["label"]).startswith("helper") else str(evs[0]["label"]).split("::")[-1]), not unordered, where="%s:%s" % (h["file"], x["ln"]), detail="id-consuming loop iterates `%s`" % ty[:90])


def _contains_ln(body, ln):
    return any(x.get("ln") == ln for x in hirq.walk(body))


def _norm_guards(e):
    out = set()
    # a loop over a collection already implies that the collection is not empty: such a guard adds nothing
    looped = set()
    for lp in e.get("loops", []):
        for x in lp:
            for p_ in ("get_", "has_", "is_"):
                if str(x).startswith(p_):
                    x = str(x)[len(p_):]
            looped.add(str(x))
    for g, neg in e["guards"]:
        for n in g:
            if n.startswith("=") or n in looped:
                continue
            n2 = {"param": "page_setup", "object_data": "page_setup", "hyperlink": None, "table": None, "macros": "has_macros"}.get(n, n)
            if n2:
                out.add(("!" if neg else "") + n2)
    return frozenset(out)


def rule_order(chk, fb):
    re_ = chk.rule("C02.e", "schema order: the elements the sheet / workbook / styles writers emit appear, in source order, as a subsequence of the child order of CT_Worksheet / CT_Workbook / CT_Stylesheet", floor=30)
    for fn, order, root in (("writer::xlsx::worksheet::write", ECMA.CT_WORKSHEET, "worksheet"), ("writer::xlsx::workbook::write", ECMA.CT_WORKBOOK, "workbook"), ("writer::xlsx::styles::write", ECMA.CT_STYLESHEET, "styleSheet")):
        if fn not in fb.hir:
            continue
        h = fb.hir[fn]
        seq = []
        _emit_order(fb, h["body"], seq, 0, set(order))
        chk.touch(fn)
        last = -1
        lastname = None
        seen = set()
        for name, ln, via in seq:
            if name not in order or name in seen:
                continue
            seen.add(name)
            idx = order.index(name)
            ok = idx > last
            chk.ob(re_, "%s:%s" % (root, name), ok, where="%s:%s" % (h["file"], ln), detail="<%s> is emitted after <%s>; the schema places it %s" % (name, lastname, "later: ok" if ok else "BEFORE it"))
            if ok:
                last, lastname = idx, name


def _emit_order(fb, n, seq, depth, vocab):
    """Root-level elements in emission order: literal tags of write_start_tag and the first tag of called write_to*."""
    for c in hirq.calls(n):
        d = c.get("def") or ""
        nm = d.split("::")[-1]
        if nm == "write_start_tag" and len(c.get("args", [])) >= 2:
            v = hirq.lit_value(c["args"][1])
            if isinstance(v, str):
                seq.append((v, c["ln"], None))
        elif nm.startswith("write_to") and d in fb.hir and depth < 2:
            sub = []
            _emit_order(fb, fb.hir[d]["body"], sub, depth + 1, vocab)
            firsts = [s for s in sub if s[0] in vocab]
            if firsts:
                seq.append((firsts[0][0], c["ln"], d))


def rule_rows(chk, fb):
    rf = chk.rule("C02.f", "rows and cells ascending: the loop that emits <row> iterates a list that has been sorted by row number, and the cells come from the store's ordered (row-major) listing, not from the hash map", floor=2)
    fn = "writer::xlsx::worksheet::write"
    if fn not in fb.mir:
        return
    b = fb.mir[fn]
    fl = Flow(fb, b, mutcalls=True)
    cfg = CFG(b)
    chk.touch(fn)
    rows_written = [(bi, t) for bi, t in fl.calls(lambda t: t.get("fn", "").endswith("Row::write_to"))]
    ok = False
    detail = "no Row::write_to call"
    if rows_written:
        at = fl.atoms(rows_written[0][1]["args"][0])
        sorts = [a for a in at if a[0] == "call" and a[1].split("::")[-1] in ("sort_by", "sort_by_key", "sort", "sort_unstable_by", "sort_unstable_by_key")]
        btree = any(a[0] == "call" and "BTree" in a[1] for a in at)
        ok = bool(sorts) or btree
        key_ok = False
        for s in sorts:
            t = b["blocks"][s[2]]["t"]
            for a in t["args"][1:]:
                for x in fl.atoms(a):
                    if x[0] == "cfn" and x[1] in fb.mir and any(tt.get("fn", "").endswith("get_row_num") for _, tt in fb.calls_in(fb.mir[x[1]])):
                        key_ok = True
        ok = ok and (key_ok or btree)
        detail = "rows emitted from a list that is sorted (%s) by the row number (%s)" % ([s[1].split("::")[-1] for s in sorts], key_ok)
    chk.ob(rf, "rows-sorted", ok, where=fb.loc(fn), detail=detail)
    cells_written = [(bi, t) for bi, t in fl.calls(lambda t: t.get("fn", "").endswith("Cell::write_to"))]
    ok = False
    detail = "no Cell::write_to call"
    if cells_written:
        at = fl.atoms(cells_written[0][1]["args"][0])
        srcs = sorted({a[1].split("::")[-1] for a in at if a[0] == "call" and ("Cells::" in a[1] or "Worksheet::get_cell_collection" in a[1] or "Worksheet::get_collection" in a[1])})
        ok = any("sorted" in s for s in srcs) and not any(s in ("get_cell_collection", "get_collection", "iter_collection", "get_collection_to_hashmap") for s in srcs)
        detail = "cells come from %s" % srcs
    chk.ob(rf, "cells-ordered", ok, where=fb.loc(fn), detail=detail)


def rule_space(chk, fb):
    rh = chk.rule("C02.h", "significant whitespace is marked: every writer of a <t> element adds xml:space=\"preserve\" under a test of the text's leading/trailing characters", floor=1)
    WS_TESTS = ("starts_with", "ends_with", "trim", "trim_start", "trim_end", "first", "last", "is_whitespace", "contains", "chars")

    def test_names(fn, depth=0):
        """names of the calls made by crate fn `fn`, its closures and the crate helpers it calls"""
        out = set()
        for bd in [fn] + [c for c in fb.mir if c.startswith(fn + "::{closure")]:
            for _, t in fb.calls_in(fb.mir[bd]):
                f = t.get("fn", "")
                out.add(f.split("::")[-1])
                for a in t.get("args", []):
                    if "cfn" in a:
                        out.add(a["cfn"].split("::")[-1])
                if f in fb.mir and f.startswith("structs::text::") and depth < 2:
                    out |= test_names(f, depth + 1)
        return out

    for d, b in sorted(fb.mir.items()):
        if not (d.startswith("structs::text::") and d.split("::")[-1].startswith("write_to")):
            continue
        h = fb.hir.get(d)
        if not h or not any((c.get("def") or "").endswith("write_start_tag") and len(c.get("args", [])) >= 2 and hirq.lit_value(c["args"][1]) == "t" for c in hirq.calls(h["body"])):
            continue
        fl = Flow(fb, b)
        cfg = CFG(b)
        sites = [bi for bi, bl in enumerate(b["blocks"]) for st in bl["s"] if st["k"] == "assign" and st["rv"]["k"] == "use" and st["rv"]["op"].get("s") == "xml:space"]
        guarded = False
        for bi in sites:
            for x in cfg.control_deps_transitive(bi):
                tt = b["blocks"][x]["t"]
                if tt["k"] != "switch":
                    continue
                names = set()
                for a in fl.atoms(tt["op"]):
                    if a[0] == "call":
                        names.add(a[1].split("::")[-1])
                        if a[1] in fb.mir:
                            names |= test_names(a[1])
                    if a[0] == "cfn":
                        names.add(a[1].split("::")[-1])
                        if a[1] in fb.mir:
                            names |= test_names(a[1])
                if names & set(WS_TESTS):
                    guarded = True
        chk.touch(d)
        chk.ob(rh, "%s" % d, bool(sites) and guarded, where=fb.loc(d), detail="writes <t>: xml:space attribute present: %s, under a whitespace test: %s" % (bool(sites), guarded))


def rule_sheet_names(chk, fb, rid="C02.i"):
    ri = chk.rule(rid, "sheet names stay unique: every workbook method that adds a sheet to or renames a sheet in the sheet list first passes the uniqueness check, and the sheet's own name setter is not reachable from outside the crate without it", floor=3)
    SP = "structs::spreadsheet::Spreadsheet"
    WS = "structs::worksheet::Worksheet"
    check = SP + "::check_sheet_name"
    def is_site(fl, t):
        f = t.get("fn", "")
        return f.endswith("Worksheet::set_name") or (f.split("::")[-1] == "push" and "ThinVec" in f and t["args"] and ("field", SP, "work_sheet_collection") in fl.atoms(t["args"][0]))

    private_sites = set()
    for d, b in fb.mir.items():
        if b.get("self_ty") == SP and b["kind"] == "AssocFn" and b.get("vis") != "pub":
            fl = Flow(fb, b)
            if any(is_site(fl, t) for _, t in fl.calls()):
                private_sites.add(d)
    from props.C07 import bodies_with_closures

    for d, b in sorted(fb.mir.items()):
        if b.get("self_ty") != SP or b["kind"] != "AssocFn" or b.get("vis") != "pub":
            continue
        fl = Flow(fb, b)
        cfg = CFG(b)
        sites = []
        for bi, t in fl.calls():
            if is_site(fl, t) or t.get("fn") in private_sites:
                sites.append((bi, t))
        # closures created here that rename / push
        for bd in bodies_with_closures(fb, d)[1:]:
            cb = fb.mir[bd]
            cfl = Flow(fb, cb)
            if any(is_site(cfl, t) for _, t in cfl.calls()):
                for bi, bl in enumerate(b["blocks"]):
                    for st in bl["s"]:
                        if st["k"] == "assign" and st["rv"]["k"] == "agg" and st["rv"].get("closure") == bd:
                            sites.append((bi, {"fn": bd, "ln": st["ln"]}))
        for n, (bi, t) in enumerate(sites):
            checks = [x for x, tt in fl.calls() if tt.get("fn") == check]
            ok = any(cfg.dominates(x, bi) for x in checks)
            chk.touch(d)
            chk.ob(ri, "%s:%s#%d" % (d, t["fn"].split("::")[-1], n), ok, where="%s:%s" % (b["file"], t["ln"]), detail="%s is %sdominated by check_sheet_name" % (t["fn"].split("::")[-1], "" if ok else "NOT "))
    # API hazard: Worksheet::set_name public
    sn = WS + "::set_name"
    if sn in fb.mir:
        pub = fb.mir[sn].get("vis") == "pub"
        chk.ob(ri, "Worksheet::set_name:visibility", not pub, where=fb.loc(sn), detail="Worksheet::set_name is %s: %s" % (fb.mir[sn].get("vis"), "callers outside the crate can rename a sheet through get_sheet_mut() without the uniqueness check" if pub else "crate-only"),
               key="Worksheet::set_name:visibility%s" % (":pub" if pub else ""))


def rule_quote(chk, fb):
    """Sheet names inside references: a quoted name has its apostrophes doubled. The doubling step may depend only on
    the presence of an apostrophe in the name (and on the mode flag / the empty-name early return) - never on what else
    has already been found, otherwise a name that is quoted for another reason keeps a bare apostrophe."""
    from cfg import CFG
    from mirq import Flow

    r = chk.rule(
        "C02.j",
        "sheet-name quoting: where a reference is rendered with its sheet name, the step that doubles apostrophes is control-dependent only on `name contains \"'\"`, the mode flag and the empty-name test",
        floor=1,
    )
    n = 0
    for d, b in sorted(fb.mir.items()):
        if not b.get("self_ty", "").endswith("::Address"):
            continue
        fl = Flow(fb, b)
        cfg = None
        for bi, t in fl.calls(lambda t: t.get("fn", "").endswith("str>::replace")):
            if not (len(t["args"]) == 3 and t["args"][1].get("s") == "'" and ("const", "''") in fl.atoms(t["args"][2])):
                continue
            cfg = cfg or CFG(b)
            bad = []
            for x in sorted(cfg.control_deps_transitive(bi)):
                tt = b["blocks"][x]["t"]
                if tt["k"] != "switch":
                    continue
                at = fl.atoms(tt["op"], through_calls=False)
                ok = False
                if at and all(a[0] == "arg" and fb.ty(b["locals"][a[1]]["t"]) == "bool" for a in at):
                    ok = True
                calls = [a for a in at if a[0] == "call"]
                if len(calls) == 1 and len(at) == 1:
                    ct = b["blocks"][calls[0][2]]["t"]
                    recv = fl.atoms(ct["args"][0]) if ct["args"] else set()
                    on_name = any(a[0] == "field" and a[2] == "sheet_name" for a in recv)
                    nm = calls[0][1].split("::")[-1]
                    if on_name and nm == "is_empty":
                        ok = True
                    if on_name and nm == "contains" and len(ct["args"]) > 1 and (ct["args"][1].get("s") == "'" or ("const", "'") in fl.atoms(ct["args"][1])):
                        ok = True
                if not ok:
                    bad.append("%s:%s" % (b["file"], tt.get("ln")))
            chk.touch(d)
            chk.ob(r, "%s:doubling#%d" % (d, n), not bad, where="%s:%s" % (b["file"], t["ln"]),
                   detail="apostrophe doubling also depends on other conditions at %s" % bad if bad else "apostrophe doubling depends only on the apostrophe test, the mode flag and the empty-name test")
            n += 1


def rule_sheet_ids(chk, fb):
    """sheetId / r:id of <sheet> are unique because they are the position counter and nothing else."""
    from mirq import Flow

    r = chk.rule(
        "C02.k",
        "sheet ids are unique by construction: the values written for <sheet sheetId> and <sheet r:id> derive only from the loop's position counter and constants (no model field, whose values nothing keeps distinct)",
        floor=2,
    )
    d = "writer::xlsx::workbook::write"
    b = fb.mir.get(d)
    if not b:
        chk.ob(r, "anchor", False, detail="workbook writer not found")
        return
    chk.touch(d)
    fl = Flow(fb, b)
    seen = set()
    for bl in b["blocks"]:
        for s in bl["s"]:
            if s["k"] == "assign" and s["rv"]["k"] == "agg" and s["rv"].get("ak") == "tuple" and len(s["rv"]["ops"]) == 2:
                a0 = fl.atoms(s["rv"]["ops"][0])
                for attr in ("sheetId", "r:id"):
                    if a0 == {("const", attr)}:
                        at = fl.atoms(s["rv"]["ops"][1])
                        if attr == "r:id" and not any(a[0] == "const" and "rId" in str(a[1]) for a in at):
                            continue
                        model = sorted(a[1] if a[0] == "call" else ("parameter %d" % a[1] if a[0] == "arg" else "%s.%s" % (a[1].split("::")[-1], a[2])) for a in at
                                       if (a[0] == "call" and not a[1].lstrip("<").startswith(("std::", "core::", "alloc::", "T as std::")))
                                       or (a[0] == "field" and a[1] in fb.adts) or a[0] == "arg")
                        inst = "sheet@%s" % attr
                        if inst in seen:
                            inst += "#%d" % len(seen)
                        seen.add(inst)
                        chk.ob(r, inst, not model, where="%s:%s" % (b["file"], s.get("ln")),
                               detail="value derives from the counter and constants only" if not model else "value also derives from %s" % model)


def _neg_guarded(cfg, fl, b, target, pred):
    """Call blocks cb (satisfying pred) whose boolean result decides `target`: a switch on the call's result exists such
    that, without going through cb again, `target` is reachable from the switch's `false` successor only."""
    out = []
    for x in cfg.reach:
        t = b["blocks"][x]["t"]
        if t["k"] != "switch" or len(t.get("targets", [])) != 1 or t["targets"][0][0] != 0:
            continue
        for a in fl.atoms(t["op"], through_calls=False):
            if a[0] != "call" or not pred(a):
                continue
            if len(fl.atoms(t["op"], through_calls=False)) != 1:
                continue
            cb = a[2]
            f_succ, t_succ = t["targets"][0][1], t["otherwise"]
            if target in cfg.reachable(f_succ, avoid=[cb]) and target not in cfg.reachable(t_succ, avoid=[cb]):
                out.append(cb)
    return out


def rule_fresh_names(chk, fb, rid="C02.l"):
    """Numbered part names are allocated against the list of parts already in the archive (raw sheets bring their own
    drawings / comments / tables under their original numbers, and add_writer silently skips an existing name)."""
    from cfg import CFG
    from mirq import Flow

    r = chk.rule(
        rid,
        "numbered part names are fresh: every WriterManager method that adds a part under a computed (numbered) name does so only after check_file_exist of that very name said no, or takes the number from a method that returns only numbers tested that way",
        floor=5,
    )
    WM = "structs::writer_manager::WriterManager"
    impl = {d: b for d, b in fb.mir.items() if (b.get("self_ty") or "").startswith(WM) and b["kind"] == "AssocFn"}

    def fmt_calls(at):
        """calls that compute a name: format!, an invoked naming closure, a crate helper returning the name"""
        return {a for a in at if a[0] == "call" and (a[1] == "std::fmt::format" or a[1] in ("std::ops::Fn::call", "std::ops::FnMut::call", "std::ops::FnOnce::call_once") or (a[1] in fb.mir and fb.ty(fb.mir[a[1]]["locals"][0]["t"]) == "std::string::String"))}

    is_check = lambda a: a[1].endswith("::check_file_exist")
    # methods that hand out tested numbers: every return is decided by a negative test of a name built from the returned counter
    fresh_src = set()
    for d, b in impl.items():
        fl = Flow(fb, b)
        ret = {a for a in fl.atoms(0) if a[0] == "field" and a[1] == WM}
        rets = [i for i, bl in enumerate(b["blocks"]) if bl["t"]["k"] == "return"]
        if not ret or not rets or fb.ty(b["locals"][0]["t"]) not in ("i32", "u32", "usize"):
            continue
        cfg = CFG(b)
        good = True
        for rb in rets:
            cbs = _neg_guarded(cfg, fl, b, rb, is_check)
            if not any(ret <= fl.atoms(b["blocks"][cb]["t"]["args"][1]) and fmt_calls(fl.atoms(b["blocks"][cb]["t"]["args"][1])) for cb in cbs):
                good = False
        if good:
            fresh_src.add(d)
    for d, b in sorted(impl.items()):
        nm = d.split("::")[-1]
        if nm in ("add_writer", "add_bin"):
            continue
        fl = Flow(fb, b)
        cfg = None
        for bi, t in fl.calls(lambda t: t.get("fn", "").split("::")[-1] in ("add_writer", "add_bin") and (t.get("fn") or "").startswith(WM)):
            at = fl.atoms(t["args"][1])
            fm = fmt_calls(at)
            if not fm:
                continue
            cfg = cfg or CFG(b)
            ok = any(fmt_calls(fl.atoms(b["blocks"][cb]["t"]["args"][1])) & fm for cb in _neg_guarded(cfg, fl, b, bi, is_check))
            why = "added only after check_file_exist of the same name said no"
            if not ok:
                params = [a[1] for a in at if a[0] == "arg" and a[1] >= 2]
                if params:
                    sites = [(c, ct) for c in sorted({x[0] for x in fb.callers.get(d, ())}) if c in fb.mir for cb, ct in fb.calls_in(fb.mir[c]) if ct.get("fn") == d]
                    good = bool(sites)
                    for c, ct in sites:
                        cfl = Flow(fb, fb.mir[c])
                        for pi in params:
                            if pi - 1 < len(ct["args"]):
                                cat = cfl.atoms(ct["args"][pi - 1])
                                if not any(a[0] == "call" and a[1] in fresh_src for a in cat):
                                    good = False
                    ok = good
                    why = ("number is a parameter; every caller (%d) passes a number from %s" % (len(sites), sorted(x.split("::")[-1] for x in fresh_src))) if good else "number is a parameter and some caller passes a number that was not tested against the parts already written (add_writer silently skips an existing name)"
                else:
                    why = "the name is computed but not tested against the parts already written (add_writer silently skips an existing name)"
            chk.touch(d)
            chk.ob(r, "%s:%s" % (nm, t["fn"].split("::")[-1]), ok, where="%s:%s" % (b["file"], t["ln"]), detail=why)



def rule_quote_inverse(chk, fb, rid="C02.j.inv"):
    """What the writer doubles the reader has to halve: the address text of a defined name is written with every
    apostrophe of the sheet name doubled, so the function that turns such a text back into an Address must undo it."""
    from mirq import Flow

    r = chk.rule(
        rid,
        "apostrophe doubling has an inverse: every struct that renders its addresses with doubled apostrophes (defined names today) halves them again - replace(\"''\", \"'\") - wherever it turns an address text into an Address",
        floor=1,
    )
    writer_doubles = False
    for d, b in fb.mir.items():
        if b.get("self_ty", "").endswith("::Address"):
            fl = Flow(fb, b)
            for _, t in fl.calls(lambda t: t.get("fn", "").endswith("str>::replace")):
                if len(t["args"]) == 3 and t["args"][1].get("s") == "'" and ("const", "''") in fl.atoms(t["args"][2]):
                    writer_doubles = True
    # which structs render addresses with doubling? those whose methods call the doubling form of the address getter
    doublers = set()
    dbl_fns = set()
    for d, b in fb.mir.items():
        if b.get("self_ty", "").endswith("::Address"):
            fl = Flow(fb, b)
            for _, t in fl.calls(lambda t: t.get("fn", "").endswith("Address::get_address_crate")):
                if len(t["args"]) > 1 and t["args"][1].get("i", t["args"][1].get("c")) in (1, True, "true"):
                    dbl_fns.add(d)
    for d, b in fb.mir.items():
        owner = b.get("self_ty") or fb.mir.get(d.split("::{closure")[0], {}).get("self_ty")  # closures belong to their method
        if any(t.get("fn") in dbl_fns or any(a.get("cfn") in dbl_fns for a in t.get("args", [])) for _, t in fb.calls_in(b)) and owner and not owner.endswith("::Address"):
            doublers.add(owner)
    n = 0
    for d, b in sorted(fb.mir.items()):
        if b.get("self_ty") not in doublers:
            continue
        fl = Flow(fb, b)
        for bi, t in fl.calls(lambda t: t.get("fn", "").endswith("Address::set_address")):
            at = fl.atoms(t["args"][1]) if len(t["args"]) > 1 else set()
            def halves(fn_body, fl_, atoms_, depth=0):
                for a in atoms_:
                    if a[0] != "call":
                        continue
                    if a[1].endswith("str>::replace"):
                        rt = fn_body["blocks"][a[2]]["t"]
                        if len(rt["args"]) == 3 and (rt["args"][1].get("s") == "''" or ("const", "''") in fl_.atoms(rt["args"][1])) and ("const", "'") in fl_.atoms(rt["args"][2]):
                            return True
                    elif a[1] in fb.mir and depth < 2 and "String" in fb.ty(fb.mir[a[1]]["locals"][0]["t"]):
                        # a crate helper that returns the cleaned text
                        hb = fb.mir[a[1]]
                        hfl = Flow(fb, hb)
                        if halves(hb, hfl, hfl.atoms(0), depth + 1):
                            return True
                return False

            undone = halves(b, fl, at)
            chk.touch(d)
            chk.ob(r, "%s#%d" % (d.split("::", 2)[-1], n), undone or not writer_doubles, where="%s:%s" % (b["file"], t["ln"]),
                   detail="the writer doubles apostrophes: %s; this reader halves them before parsing: %s" % (writer_doubles, undone))
            n += 1


def rule_unordered_once(chk, fb, rid="C02.d.once"):
    """A list built by iterating a HashSet / HashMap has a different order every time it is built. A part writer that
    builds such a list twice (once to write it, once to look positions up in it) pairs ids with the wrong entries."""
    r = chk.rule(
        rid,
        "order-unstable lists are built once per part: a function whose result is collected from HashSet/HashMap iteration is called at most once in a part writer and the private helpers of its module",
        floor=1,
    )
    U = set()
    for d, b in fb.mir.items():
        if b["kind"] not in ("Fn", "AssocFn"):
            continue
        rt = fb.ty(b["locals"][0]["t"])
        if not ("Vec<" in rt or "ThinVec<" in rt):
            continue
        at = Flow(fb, b).atoms(0)
        if any(a[0] == "call" and any(x in a[1] for x in ("HashSet", "HashMap", "hash_set", "hash_map")) and a[1].split("::")[-1] in ("into_iter", "iter", "keys", "values", "drain", "into_keys", "into_values") for a in at):
            U.add(d)
    for w, wb in sorted(fb.mir.items()):
        if not (w.startswith("writer::") and w.endswith("::write") and wb["kind"] == "Fn"):
            continue
        mod = w.rsplit("::", 1)[0]
        group = [w] + sorted(x for x in fb.reachable_from([w]) if x in fb.mir and x != w and x.rsplit("::", 1)[0].split("::{closure")[0] == mod and fb.mir[x].get("vis") != "pub")
        for u in sorted(U):
            sites = [(g, t["ln"]) for g in group for _, t in fb.calls_in(fb.mir[g]) if t.get("fn") == u]
            if not sites:
                continue
            chk.touch(w, u)
            chk.ob(r, "%s:%s" % ("::".join(w.split("::")[-2:]), u.split("::")[-1]), len(sites) <= 1, where="%s:%s" % (fb.mir[sites[0][0]]["file"], sites[0][1]),
                   detail="%s (collected from a hash container) is built %d time(s) while writing this part%s" % (u.split("::")[-1], len(sites), "" if len(sites) <= 1 else ": positions looked up in one copy do not match the order of the other"))


def rule_list_positions(chk, fb, rid="C02.c.pos"):
    """Drawing parts refer to their relationships by *position*: the drawing writers push ("CHART"|"IMAGE", target) onto a
    list and write `rId<len>` (or index + 1 of an entry already there).  A relationships writer that walks this list
    must therefore number by position, whatever it writes or skips."""
    from props import C11

    r = chk.rule(
        rid,
        "relationship ids that are list positions: in every relationships writer that walks a (kind, target) list handed over by a part writer, the id given to a relationship is 1 + the number of entries before the current one - a counter from 1 that advances on every path through the loop body (skipped kinds still count), or the enumeration index + 1",
        floor=2,
    )
    LIST = "&[(std::string::String, std::string::String)]"
    for d, b in sorted(fb.mir.items()):
        if not d.startswith("writer::") or b["kind"] != "Fn":
            continue
        params = [i for i in range(1, b["argc"] + 1) if fb.ty(b["locals"][i]["t"]) == LIST]
        if not params:
            continue
        chk.touch(d)
        C11.positional(chk, fb, r, d, lambda at, ps=tuple(params): any(a[0] == "arg" and a[1] in ps for a in at) and not any(a[0] == "call" and a[1] in fb.mir for a in at), d.split("::", 1)[-1], what="list entry")


def rule_charts_first(chk, fb, rid="C02.c.charts"):
    """The drawing relationships writer numbers the chart parts 1..n on its own and the remaining entries by their
    position in the list: that only agrees with the ids the drawing part wrote if the chart anchors are the first to
    register in the list."""
    from cfg import CFG

    r = chk.rule(
        rid,
        "chart anchors register first: in the drawing part's writer, the loop over the chart collection comes before every other call that is handed the relationship list (the relationships writer gives charts the ids 1..n)",
        floor=1,
    )
    for d, b in sorted(fb.mir.items()):
        if not d.endswith("WorksheetDrawing::write_to"):
            continue
        fl = Flow(fb, b)
        cfg = CFG(b)
        LIST = "&mut std::vec::Vec<(std::string::String, std::string::String)>"
        lp = [i for i in range(1, b["argc"] + 1) if fb.ty(b["locals"][i]["t"]) == LIST]
        if not lp:
            continue
        takers = [(bi, t) for bi, t in fl.calls() if (t.get("fn", "") in fb.mir or t.get("fn", "").split("::")[-1] in ("for_each", "fold", "try_for_each")) and any(("arg", lp[0]) in fl.atoms(a, through_calls=False) for a in t["args"])]
        chart = [bi for bi, t in takers if any(x[0] == "field" and x[2] == "chart_collection" for a in t["args"] for x in fl.atoms(a))]
        others = [bi for bi, t in takers if bi not in chart]
        chk.touch(d)
        # every other taker is reachable only through (after) the chart loop header
        heads = set()
        for tl, h in cfg.back_edges():
            body = cfg.natural_loop(tl, h)
            if any(c in body for c in chart):
                heads.add(h)
        # without loops (iterator chains with closures) the registering calls themselves are ordered by dominance
        firsts = heads or set(chart)
        ok = bool(firsts) and all(any(cfg.dominates(h, o) for h in firsts) for o in others)
        chk.ob(r, "WorksheetDrawing::write_to", ok, where=fb.loc(d), detail="%d call(s) register chart anchors, %d register other anchors; all others come after the chart loop: %s" % (len(chart), len(others), ok))


def run(chk, fb, tier):
    rule_content_types(chk, fb)
    rule_targets(chk, fb)
    rule_rid_pairs(chk, fb)
    rule_list_positions(chk, fb)
    symmetry.rule_swapped_args(chk, fb, "C02.n")
    symmetry.rule_positional_tables(chk, fb, "C02.o")
    rule_charts_first(chk, fb)
    rule_unordered_once(chk, fb)
    rule_order(chk, fb)
    rule_rows(chk, fb)
    channels.rule_attr_escape(chk, fb, "C02.g")
    channels.rule_legal_chars(chk, fb, "C02.g.chars")
    rule_space(chk, fb)
    rule_sheet_names(chk, fb, "C02.i")
    C01.rule_escape(chk, fb)
    rule_quote(chk, fb)
    rule_quote_inverse(chk, fb)
    rule_sheet_ids(chk, fb)
    rule_fresh_names(chk, fb)
    symmetry.rule_enum_tables(chk, fb, "C02.m")
    symmetry.rule_enum_spec(chk, fb, "C02.m.spec", "write")
    chk.assume("zip and quick-xml produce well-formed containers / XML for the events they are given")
    chk.note("not decided: that an independent reader decodes the file to the model (value-level); index-in-table bounds are runtime values")
