"""C07 — structural edits relocate content like a reference grid. Clauses a–f (DESIGN.md section 4)."""
import importlib.util
import itertools
import os
import re

from cfg import CFG
from mirq import Flow
from kernel import Interp, NotKernel, Panic, inputs_of, ev, select, show, freeze
from report import nf_hash
from e2 import fields_read

_spec = importlib.util.spec_from_file_location("kernels", os.path.join(os.path.dirname(__file__), "..", "..", "spec", "kernels.py"))
K = importlib.util.module_from_spec(_spec)
_spec.loader.exec_module(K)

T_VALUE = "traits::adjustment_value::AdjustmentValue"
T_COORD = "traits::adjustment_coordinate::AdjustmentCoordinate"
T_SHEET = "traits::adjustment_coordinate_with_sheet::AdjustmentCoordinateWithSheet"
FAMILY = (T_VALUE, T_COORD, T_SHEET)


def method_role(name):
    if name.startswith("adjustment_insert"):
        return "insert"
    if name.startswith("adjustment_remove"):
        return "remove"
    if name.startswith("is_remove"):
        return "band"
    return None


def impl_methods(fb, trait):
    """{self_adt: {role: def path}} for non-derived impls of trait."""
    out = {}
    for i in fb.impls_of(trait):
        adt = i.get("self_adt")
        if not adt:
            continue
        m = {}
        for d in i["methods"]:
            r = method_role(d.split("::")[-1])
            if r:
                m[r] = d
        out[adt] = m
    return out


# ------------------------------------------------------------------------------------------------
# C07.a scalar kernels
def class_of(num, root, off):
    if root == 0 or off == 0:
        return "axis-not-edited"
    if num < root:
        return "before-band"
    if num < root + off:
        return "in-band"
    return "beyond-band"


def scalar_domain():
    for root, off in [(0, 0)] + [(r, o) for r in (1, 2, 3) for o in (1, 2, 3)]:
        for num in range(1, 9):
            yield num, root, off


def extract_scalar(fb, d):
    it = Interp(fb)
    b = fb.mir[d]
    paths = list(it.run(d, [("arg", i + 1) for i in range(b["argc"])]))
    return it, paths


def scalar_inputs(paths):
    acc = set()
    for ret, heap, conds in paths:
        inputs_of(ret, acc)
        for c, _ in conds:
            inputs_of(c, acc)
        for k, v in heap.items():
            inputs_of(v, acc)
    return acc


def relation(got, num, root, off):
    """What the code computed, expressed against the inputs (independent of how the code is written)."""
    if got == "panic":
        return "panic"
    if isinstance(got, bool) or got in (0, 1) and False:
        return str(got)
    cands = [("num", num), ("num-off", num - off), ("num+off", num + off), ("root", root), ("root-1", root - 1), ("root+off", root + off)]
    names = [n for n, v in cands if v == got]
    return "|".join(names) if names else "other"


def semantic_nf(mism, band=False):
    """Set of (order class of the inputs, set of relations consistent with EVERY mismatching cell of that class)."""
    out = {}
    for (c, _leaf), vs in mism.items():
        for num, root, off, got in vs:
            if band:
                rel = {str(got)}
            else:
                rel = set(relation(got, num, root, off).split("|"))
            out.setdefault(c, []).append(rel)
    nf = []
    for c, rels in sorted(out.items()):
        common = set.intersection(*rels) if rels else set()
        if common:
            nf.append((c, sorted(common)))
        else:
            nf.append((c, sorted(set().union(*rels))))
    return nf


def rule_scalar(chk, fb):
    rid = chk.rule(
        "C07.a",
        "scalar kernels: the extracted normal form of every scalar AdjustmentValue impl (helpers inlined) equals the reference insert/remove/band table on every order type of (num, root, root+off)",
        floor=18,
    )
    impls = impl_methods(fb, T_VALUE)
    for adt, meths in sorted(impls.items()):
        short = adt.split("::")[-1]
        k = K.ZERO_BASED.get(short, 0)
        for role in ("insert", "remove", "band"):
            d = meths.get(role)
            if d is None:
                continue
            if any(x in ty for ty in fb.field_types(adt).values() for x in ("HashMap<", "Vec<", "ThinVec<", "BTreeMap<", "BTreeSet<")):
                continue  # a container of implementors (whether it loops or uses for_each): handled by the fan-out rule
            try:
                it, paths = extract_scalar(fb, d)
            except NotKernel:
                continue  # a container (loops): handled by the fan-out rule
            chk.touch(d, *it.inlined)
            ins = scalar_inputs(paths)
            nums = [x for x in ins if x not in (("arg", 2), ("arg", 3)) and x[0] != "discr"]
            discrs = [x for x in ins if x[0] == "discr"]
            if len(nums) != 1:
                chk.ob(rid, "%s:%s" % (short, role), False, where=fb.loc(d), detail="not a scalar kernel: integer inputs %s" % [show(n) for n in nums])
                continue
            N = nums[0]
            mism = {}
            cells = 0
            ref = {"insert": K.insert, "remove": K.remove, "band": K.band}[role]
            for num, root, off in scalar_domain():
                if short in ("Row", "Column") and root == 0:
                    continue  # these impls are only reached under an `offset != 0` guard (checked by C07.c.guard)
                val = {N: num - k, ("arg", 2): root, ("arg", 3): off}
                for dv in discrs:
                    val[dv] = 1
                cells += 1
                try:
                    ret, heap, conds = select(paths, val)
                    if role == "band":
                        got = int(bool(ev(ret, val)))
                        leaf = show(ret)
                    else:
                        writes = [(a, v) for a, v in heap.items()]
                        if not writes:
                            got = num
                            leaf = "unchanged"
                        else:
                            a, v = writes[-1]
                            if v[0] == "variant":
                                v = v[2][0]
                            got = ev(v, val) + k
                            leaf = show(v)
                except Panic as e:
                    got = "panic"
                    leaf = "panic"
                if got not in ref(num, root, off):
                    mism.setdefault((class_of(num, root, off), leaf), []).append((num, root, off, got))
            ok = not mism
            nf = semantic_nf(mism, band=(role == "band"))
            detail = "%d paths, %d cells compared, inlined %s" % (len(paths), cells, sorted(x.split("::")[-1] for x in it.inlined))
            if mism:
                ex = []
                for (c, l), vs in sorted(mism.items()):
                    num, root, off, got = vs[0]
                    ex.append("%s: code gives %s = %s for (num=%d, root=%d, off=%d), reference %s" % (c, l, got, num, root, off, sorted(ref(num, root, off))))
                detail += "; MISMATCH " + " | ".join(ex)
            chk.ob(
                rid,
                "%s:%s" % (short, role),
                ok,
                where=fb.loc(d),
                detail=detail,
                key="%s:%s%s" % (short, role, "" if ok else ":" + nf_hash(nf)),
            )
    # the helper kernels themselves, by role of their callers
    helpers = {}
    for adt, meths in impls.items():
        for role, d in meths.items():
            b = fb.mir.get(d)
            if not b:
                continue
            for _, t in fb.calls_in(b):
                f = t.get("fn", "")
                cb = fb.mir.get(f)
                if cb and cb["kind"] == "Fn" and cb["argc"] == 3 and all(fb.ty(cb["locals"][i]["t"]) == "&u32" for i in (1, 2, 3)):
                    helpers.setdefault(f, set()).add(role)
    for f, roles in sorted(helpers.items()):
        if len(roles) != 1:
            chk.ob(rid, "helper:%s" % f, False, where=fb.loc(f), detail="helper used in several roles %s" % sorted(roles))
            continue
        role = next(iter(roles))
        it, paths = extract_scalar(fb, f)
        chk.touch(f)
        ref = {"insert": K.insert, "remove": K.remove, "band": K.band}[role]
        mism = {}
        for num, root, off in scalar_domain():
            val = {("arg", 1): num, ("arg", 2): root, ("arg", 3): off}
            try:
                ret, heap, conds = select(paths, val)
                got = ev(ret, val)
                leaf = show(ret)
                if role == "band":
                    got = int(bool(got))
            except Panic:
                got, leaf = "panic", "panic"
            if got not in ref(num, root, off):
                mism.setdefault((class_of(num, root, off), leaf), []).append((num, root, off, got))
        ok = not mism
        detail = "%d paths" % len(paths)
        if mism:
            ex = []
            for (c, l), vs in sorted(mism.items()):
                num, root, off, got = vs[0]
                ex.append("%s: code gives %s = %s for (num=%d, root=%d, off=%d), reference %s" % (c, l, got, num, root, off, sorted(ref(num, root, off))))
            detail += "; MISMATCH " + " | ".join(ex)
        chk.ob(rid, "helper:%s:%s" % (f.split("::")[-1], role), ok, where=fb.loc(f), detail=detail,
               key="helper:%s:%s%s" % (f.split("::")[-1], role, "" if ok else ":" + nf_hash(semantic_nf(mism, band=(role == "band")))))


# ------------------------------------------------------------------------------------------------
# C07.b range predicate
def rule_range(chk, fb, tier):
    rid = chk.rule(
        "C07.b",
        "range removal predicate: the extracted normal form of Range::is_remove_coordinate equals 'on an edited axis every corner lies in the band' for every API-reachable edit and every corner order type",
        floor=1,
    )
    d = "<structs::range::Range as %s>::is_remove_coordinate" % T_COORD
    impls = impl_methods(fb, T_COORD)
    cand = [m["band"] for adt, m in impls.items() if adt.endswith("::Range") and "band" in m]
    if not cand:
        return
    d = cand[0]
    it = Interp(fb)
    b = fb.mir[d]
    try:
        paths = list(it.run(d, [("arg", i + 1) for i in range(b["argc"])]))
    except NotKernel as e:
        chk.ob(rid, "Range:band", False, where=fb.loc(d), detail="not a kernel: %s" % e)
        return
    chk.touch(d, *it.inlined)
    ins = scalar_inputs(paths)
    corners = {}
    discr = {}
    for x in ins:
        s = show(x)
        for name in ("start_col", "start_row", "end_col", "end_row"):
            if name in s:
                if x[0] == "discr":
                    discr[name] = x
                elif x[0] in ("field", "call"):
                    corners[name] = x
    if len(corners) != 4:
        chk.ob(rid, "Range:band", False, where=fb.loc(d), detail="could not identify the four corner inputs: %s" % sorted(show(x) for x in ins))
        return
    edits = [(2, 2, 0, 0), (0, 0, 2, 2), (1, 1, 0, 0), (0, 0, 1, 3)]
    if tier == "thorough":
        edits += [(2, 2, 2, 2), (1, 1, 3, 1), (2, 1, 0, 0), (0, 0, 3, 2)]
    names = ("start_col", "start_row", "end_col", "end_row")
    mism = {}
    cells = 0
    for edit in edits:
        for present in itertools.product((0, 1), repeat=4):
            for vals in itertools.product((1, 2, 3, 4, 5), repeat=4):
                if any(p == 0 and v != 1 for p, v in zip(present, vals)):
                    continue
                val = {("arg", 2): edit[0], ("arg", 3): edit[1], ("arg", 4): edit[2], ("arg", 5): edit[3]}
                c = {}
                for n, p, v in zip(names, present, vals):
                    if n in discr:
                        val[discr[n]] = p
                    val[corners[n]] = v
                    c[n] = v if p else None
                cells += 1
                try:
                    ret, heap, conds = select(paths, val)
                    got = bool(ev(ret, val))
                except Panic:
                    got = "panic"
                want = K.range_removed(c, edit)
                if got != want:
                    axis = "col-edit" if edit[2] == 0 and edit[3] == 0 else ("row-edit" if edit[0] == 0 and edit[1] == 0 else "both-axes")
                    mism.setdefault((axis, str(got), str(want)), []).append((edit, dict(c)))
    ok = not mism
    detail = "%d paths, %d cells compared" % (len(paths), cells)
    if mism:
        ex = []
        for (axis, got, want), vs in sorted(mism.items()):
            ex.append("%s: code %s, reference %s, e.g. edit=%s corners=%s (%d cells)" % (axis, got, want, vs[0][0], vs[0][1], len(vs)))
        detail += "; MISMATCH " + " | ".join(ex)
    chk.ob(rid, "Range:band", ok, where=fb.loc(d), detail=detail, key="Range:band%s" % ("" if ok else ":" + nf_hash(sorted((k, len(v)) for k, v in mism.items()))))


# ------------------------------------------------------------------------------------------------
# C07.c fan-out coverage
PATH_RE = re.compile(r"[a-z_0-9]+(?:::[A-Za-z_0-9]+)+")


def implementors(fb, traits=FAMILY):
    s = set()
    for t in traits:
        for i in fb.impls_of(t):
            if i.get("self_adt"):
                s.add(i["self_adt"])
    return s


def reach_types(fb, traits=FAMILY):
    """ADT -> True if it (transitively through fields) contains an implementor of an adjustment trait."""
    impl = implementors(fb, traits)
    other = implementors(fb, FAMILY) - impl  # handled by another pass of the family: a boundary
    memo = {}

    def go(adt, stack):
        if adt in memo:
            return memo[adt]
        if adt in impl:
            memo[adt] = True
            return True
        if adt in other:
            memo[adt] = False
            return False
        if adt in stack or adt not in fb.adts:
            return False
        r = False
        for v in fb.adts[adt]["variants"]:
            for f in v["fields"]:
                for p in PATH_RE.findall(f["ty"]):
                    if p in fb.adts and go(p, stack | {adt}):
                        r = True
        memo[adt] = r
        return r

    def ty_reaches(ty):
        return any(p in fb.adts and go(p, frozenset()) for p in PATH_RE.findall(ty))

    return ty_reaches


def getter_fields(fb, fn, adt, depth=0, memo=None):
    """Fields of `adt` that the value returned by crate fn `fn` may point into."""
    memo = memo if memo is not None else {}
    if fn in memo:
        return memo[fn]
    memo[fn] = set()
    b = fb.mir.get(fn)
    if not b or len(b["blocks"]) > 600:
        return set()
    fl = Flow(fb, b, mutcalls=True)
    out = set()
    for a in fl.atoms(0):
        if a[0] == "field" and a[1] == adt:
            out.add(a[2])
        elif a[0] == "call" and depth < 3 and a[1] in fb.mir and fb.mir[a[1]].get("self_ty") == adt:
            out |= getter_fields(fb, a[1], adt, depth + 1, memo)
    memo[fn] = out
    return out


def recv_fields(fb, fl, body, t, adt, memo):
    """Fields of adt (the Self of body) that the receiver (first argument) of call t derives from."""
    if not t["args"]:
        return set()
    out = set()
    for a in fl.atoms(t["args"][0]):
        if a[0] == "field" and a[1] == adt:
            out.add(a[2])
        elif a[0] == "call" and a[1] in fb.mir and fb.mir[a[1]].get("self_ty") == adt:
            out |= getter_fields(fb, a[1], adt, 0, memo)
        elif a[0] == "arg" and a[1] >= 2 and body.get("kind") == "Closure":
            # the element handed to a closure by an iterator adaptor (for_each / map / ...): where does the iterator come from?
            out |= closure_elem_fields(fb, body["def"], adt, memo)
    return out


def closure_elem_fields(fb, cdef, adt, memo):
    """Fields of adt whose elements are fed to closure cdef by the iterator call in its parent that takes it."""
    key = ("celem", cdef, adt)
    if key in memo:
        return memo[key]
    memo[key] = set()
    parent = cdef.rsplit("::{closure", 1)[0]
    pb = fb.mir.get(parent)
    out = set()
    if pb:
        pfl = Flow(fb, pb)
        for bi, t in pfl.calls():
            if len(t["args"]) >= 2 and any(x[0] == "cfn" and x[1] == cdef for a in t["args"][1:] for x in pfl.atoms(a)):
                out |= recv_fields(fb, pfl, pb, t, adt, memo)
    memo[key] = out
    return out


# (struct, field) -> reason why the field is not required to be relocated by a structural edit
FANOUT_EXCEPTIONS = {
    ("structs::worksheet::Worksheet", "data_validations"): "data validations are not in C07's list of relocated content",
    ("structs::worksheet::Worksheet", "data_validations_2010"): "data validations are not in C07's list of relocated content",
    ("structs::worksheet::Worksheet", "tables"): "table areas are not in C07's list of relocated content",
    ("structs::worksheet::Worksheet", "pivot_tables"): "pivot table locations are not in C07's list of relocated content",
    ("structs::worksheet::Worksheet", "sheet_views"): "panes/selections are not in C07's list of relocated content",
    ("structs::worksheet::Worksheet", "ole_objects"): "OLE object anchors are not in C07's list of relocated content",
    ("structs::worksheet::Worksheet", "row_breaks"): "page breaks are not in C07's list of relocated content",
    ("structs::worksheet::Worksheet", "column_breaks"): "page breaks are not in C07's list of relocated content",
    ("structs::cells::Cells", "default_cell_value"): "the shared default (blank) cell value returned for missing cells; it never holds a formula",
    ("structs::drawing::spreadsheet::worksheet_drawing::WorksheetDrawing", "two_cell_anchor_collection", T_SHEET): "chart anchors (the only ones with formulas) are routed to chart_collection by the reader and the Chart API; anchors kept in this list carry no series formulas",
}


def family_call(t, role):
    """Is call t an adjustment call of the given role (trait method of the family, or an inherent method following the naming of the family)?"""
    orig = t.get("orig", t.get("fn", ""))
    name = orig.split("::")[-1]
    return method_role(name) == role and ("adjustment_" in name or "is_remove" in name)


def bodies_with_closures(fb, d):
    """The MIR body of d and of the closures it creates (transitively)."""
    out = [d]
    seen = {d}
    i = 0
    while i < len(out):
        b = fb.mir.get(out[i])
        i += 1
        if not b:
            continue
        for bl in b["blocks"]:
            for s in bl["s"]:
                if s["k"] == "assign" and s["rv"]["k"] == "agg" and s["rv"].get("ak") == "closure":
                    c = s["rv"]["closure"]
                    if c not in seen:
                        seen.add(c)
                        out.append(c)
    return out


# (struct, trait) -> fields that hold references although their type implements no trait of the family
EXTRA_REQUIRED = {
    ("structs::worksheet::Worksheet", T_SHEET): {"cell_collection": "cells hold formula text (adjusted through Cells::adjustment_*_with_2sheet)"},
}


def rule_fanout(chk, fb, tier, traits=(T_COORD, T_VALUE), prefix="C07.c", with_retain=True):
    rid = chk.rule(
        prefix,
        "fan-out coverage: in every impl of the adjustment trait(s) %s, each field whose type (transitively) holds an implementor of that trait receives the family's insert call in insert and remove call in remove"
        % "/".join(t.split("::")[-1] for t in traits),
        floor=20 if with_retain else 14,
    )
    if with_retain:
        rid2 = chk.rule(
            prefix + ".retain",
            "remove order: where remove shifts the elements of a collection field in a loop, a retain() on that field whose closure calls the element type's own is_remove_* (not the always-false trait default) dominates the loop",
            floor=6,
        )
        rid3 = chk.rule(
            prefix + ".guard",
            "row/column dimension tables are shifted only under `offset != 0` for their axis (their band predicate is undefined for an empty band)",
            floor=4,
        )
    memo = {}
    for trait in traits:
        same = (T_COORD, T_VALUE) if trait in (T_COORD, T_VALUE) else (trait,)
        ty_reaches = reach_types(fb, same)
        for adt, meths in sorted(impl_methods(fb, trait).items()):
            if adt not in fb.adts or fb.adts[adt]["kind"] != "struct":
                continue
            fields = fb.field_types(adt)
            need = [f for f, ty in fields.items() if ty_reaches(ty)]
            for f in EXTRA_REQUIRED.get((adt, trait), {}):
                if f in fields and f not in need:
                    need.append(f)
            for role in ("insert", "remove"):
                d = meths.get(role)
                if not d or d not in fb.mir:
                    continue
                chk.touch(d)
                covered = {}
                wrong_role = {}
                for bd in bodies_with_closures(fb, d):
                    b = fb.mir[bd]
                    fl = Flow(fb, b)
                    for bi, t in fl.calls():
                        for r2 in ("insert", "remove"):
                            if family_call(t, r2):
                                for f in recv_fields(fb, fl, b, t, adt, memo):
                                    (covered if r2 == role else wrong_role).setdefault(f, []).append((bd, bi, t))
                for f in need:
                    if (adt, f, trait) in FANOUT_EXCEPTIONS or (adt, f) in FANOUT_EXCEPTIONS:
                        continue
                    ok = f in covered
                    extra = ""
                    if not ok and f in wrong_role:
                        extra = " (it receives the OPPOSITE call %s)" % wrong_role[f][0][2].get("orig", wrong_role[f][0][2]["fn"]).split("::")[-1]
                    chk.ob(
                        rid,
                        "%s[%s].%s:%s" % (adt.split("::")[-1], trait.split("::")[-1], f, role),
                        ok,
                        where=fb.loc(d),
                        detail="field `%s: %s` %s the %s call%s" % (f, fields[f], "receives" if ok else "does NOT receive", role, extra),
                    )
                if with_retain and role == "remove":
                    check_retain(chk, fb, rid2, adt, trait, d, covered, fields, memo)
                if with_retain and adt.endswith("::Worksheet") and trait == T_COORD:
                    check_guard(chk, fb, rid3, adt, d, covered, role)


ELEM_RE = re.compile(r"(?:thin_vec::ThinVec|std::vec::Vec)<([^<>]+)>")


def check_retain(chk, fb, rid, adt, trait, d, covered, fields, memo):
    b = fb.mir[d]
    cfg = CFG(b)
    fl = Flow(fb, b)
    # loops: a family call whose receiver derives from Iterator::next
    for f, sites in sorted(covered.items()):
        for bd, bi, t in sites:
            if bd != d:
                # the shift sits in a closure: if that closure is the predicate of a retain / retain_mut on the field, the
                # band test must look at the element BEFORE it is shifted
                cb = fb.mir.get(bd)
                if cb and cb["kind"] == "Closure":
                    used_by_retain = False
                    for rb, rt in fl.calls(lambda x: x.get("fn", "").split("::")[-1] in ("retain", "retain_mut")):
                        if any(x[0] == "cfn" and x[1] == bd for a in rt["args"][1:] for x in fl.atoms(a)):
                            used_by_retain = True
                    if used_by_retain:
                        ccfg = CFG(cb)
                        preds = [ci for ci, ct in fb.calls_in(cb) if method_role(ct.get("orig", ct.get("fn", "")).split("::")[-1]) == "band"]
                        ok = bool(preds) and all(ccfg.dominates(p_, bi) and p_ != bi for p_ in preds[:1])
                        chk.ob(rid, "%s.%s:retain-before-shift" % (adt.split("::")[-1], f), ok, where="%s:%s" % (cb["file"], t["ln"]),
                               detail="element is shifted inside the retain predicate; the band test %s" % ("comes first" if ok else "comes AFTER the shift (or is missing): it looks at the already shifted position, so elements next to the band are dropped and elements in it survive"))
                continue
            at = fl.atoms(t["args"][0])
            if not any(a[0] == "call" and "Iterator" in a[1] and a[1].endswith("::next") for a in at):
                continue
            # element type = impl_self of the resolved callee
            elem = t.get("impl_self", "?")
            # find retain calls on the same field
            found = None
            for rb, rt in fl.calls(lambda x: x.get("fn", "").endswith("::retain")):
                if f not in recv_fields(fb, fl, b, rt, adt, memo):
                    continue
                # closure passed
                clos = None
                for a in rt["args"][1:]:
                    for x in fl.atoms(a):
                        if x[0] == "cfn":
                            clos = x[1]
                if clos is None or clos not in fb.mir:
                    continue
                callee = None
                for _, ct in fb.calls_in(fb.mir[clos]):
                    if method_role(ct.get("orig", ct.get("fn", "")).split("::")[-1]) == "band":
                        callee = ct
                found = (rb, rt, clos, callee)
                break
            inst = "%s.%s:retain-before-shift" % (adt.split("::")[-1], f)
            if not found:
                chk.ob(rid, inst, False, where="%s:%s" % (b["file"], t["ln"]), detail="elements of `%s` (%s) are shifted in a loop but the collection is never retain()ed with a band predicate: elements inside the removed band survive" % (f, elem))
                continue
            rb, rt, clos, callee = found
            if callee is None:
                chk.ob(rid, inst, False, where="%s:%s" % (b["file"], rt["ln"]), detail="retain closure does not call an is_remove_* predicate")
                continue
            default = callee["fn"].startswith("traits::")
            dom = cfg.dominates(rb, bi)
            ok = dom and not default
            chk.ob(
                rid,
                inst,
                ok,
                where="%s:%s" % (b["file"], rt["ln"]),
                detail="retain uses %s%s; retain %s the shift loop" % (callee["fn"], " (trait default: always false)" if default else "", "dominates" if dom else "does NOT dominate"),
            )


def check_guard(chk, fb, rid, adt, d, covered, role):
    b = fb.mir[d]
    cfg = CFG(b)
    fl = Flow(fb, b)
    for f, axis_args in (("row_dimensions", {4, 5}), ("column_dimensions", {2, 3})):
        for bd, bi, t in covered.get(f, []):
            if bd != d:
                continue
            ok = False
            for x in cfg.control_deps_transitive(bi):
                sw = b["blocks"][x]["t"]
                at = fl.atoms(sw["op"])
                args = {a[1] for a in at if a[0] == "arg"}
                if args and args <= axis_args and any(a[0] == "call" and a[1].split("::")[-1] in ("ne", "eq") for a in at):
                    ok = True
            chk.ob(rid, "Worksheet.%s:%s:guarded-by-offset" % (f, role), ok, where="%s:%s" % (b["file"], t["ln"]),
                   detail="call on `%s` is %scontrol-dependent on a test of its own axis offset" % (f, "" if ok else "NOT "))


# ------------------------------------------------------------------------------------------------
# C07.d other sheets are untouched
def rule_other_sheets(chk, fb):
    rid = chk.rule(
        "C07.d",
        "other sheets untouched: wherever a function that names the edited sheet moves a sheet's own content (<Worksheet as AdjustmentCoordinate>::adjustment_*), that call is control-dependent on comparing the sheet's name with the edited sheet's name; the formula pass (_with_sheet) is not",
        floor=2,
    )
    own = {}
    for adt, m in impl_methods(fb, T_COORD).items():
        if adt.endswith("::Worksheet"):
            own = m
    targets = {own.get("insert"), own.get("remove")} - {None}
    for d, b in sorted(fb.mir.items()):
        if b["kind"] == "Closure":
            continue
        # has a &str parameter (the edited sheet's name) and calls the own-content mover
        strs = [i for i in range(1, b["argc"] + 1) if fb.ty(b["locals"][i]["t"]) == "&str"]
        sites = [(bi, t) for bi, t in fb.calls_in(b) if t.get("fn") in targets]
        if not strs or not sites:
            continue
        chk.touch(d)
        cfg = CFG(b)
        fl = Flow(fb, b)
        for n, (bi, t) in enumerate(sites):
            ok = False
            for x in cfg.control_deps_transitive(bi):
                sw = b["blocks"][x]["t"]
                at = fl.atoms(sw["op"])
                has_cmp = any(a[0] == "call" and a[1].split("::")[-1] in ("eq", "ne") for a in at)
                has_name = any(a[0] == "arg" and a[1] in strs for a in at)
                has_own = any((a[0] == "call" and a[1].endswith("::get_name")) or (a[0] == "field" and a[2] == "title") for a in at)
                if has_cmp and has_name and has_own:
                    ok = True
            role = method_role(t["fn"].split("::")[-1])
            chk.ob(rid, "%s:%s#%d" % (d, role, 0), ok, where="%s:%s" % (b["file"], t["ln"]),
                   detail="own-content %s of a worksheet is %sguarded by a comparison of its name with the `sheet_name` argument" % (role, "" if ok else "NOT "))


# ------------------------------------------------------------------------------------------------
# C07.f axes are not crossed
def axis_of_type(ty):
    t = ty.split("<")[0].split("::")[-1]
    t2 = ty
    if "Column" in t or "column" in t:
        return "col"
    if "Row" in t:
        return "row"
    return None


def rule_axes(chk, fb):
    rid = chk.rule(
        "C07.f",
        "axes not crossed: inside every 4-argument adjustment impl a column-typed component receives (root_col, offset_col) and a row-typed component (root_row, offset_row), in that order; nested 4-argument calls pass the four arguments through in order; the public row/column edits put index and count in the slots of their axis and constant 0 in the others",
        floor=60,
    )
    for trait, base in ((T_COORD, 2), (T_SHEET, 3)):
        for adt, meths in sorted(impl_methods(fb, trait).items()):
            for role, d in sorted(meths.items()):
                for bd in bodies_with_closures(fb, d):
                    b = fb.mir.get(bd)
                    if not b:
                        continue
                    fl = Flow(fb, b)
                    is_closure = bd != d
                    chk.touch(bd)
                    cnt = {}
                    for bi, t in fl.calls():
                        orig = t.get("orig", t.get("fn", ""))
                        name = orig.split("::")[-1]
                        if method_role(name) is None or "adjustment" not in orig and "is_remove" not in name:
                            continue
                        nargs = len(t["args"])
                        # map each argument to the set of parameters of the outer impl it derives from
                        def params(a):
                            at = fl.atoms(a, through_calls=False)
                            if is_closure:
                                # closure captures: upvar fields of arg 1
                                return {x[2] for x in at if x[0] == "field" and x[1].startswith("closure:")}
                            return {x[1] for x in at if x[0] == "arg"}
                        if nargs == 3 and "_value" in name:
                            recv_ty = fb.ty(b["locals"][t["args"][0]["p"]["l"]]["t"]) if "p" in t["args"][0] else "?"
                            axis = axis_of_type(t.get("impl_self", recv_ty))
                            if axis is None or is_closure:
                                continue
                            want = [{base}, {base + 1}] if axis == "col" else [{base + 2}, {base + 3}]
                            got = [params(t["args"][1]), params(t["args"][2])]
                            n = cnt.get((name, axis), 0)
                            cnt[(name, axis)] = n + 1
                            chk.ob(rid, "%s:%s:%s-component#%d" % (adt.split("::")[-1] + "." + role, name, axis, n), got == want,
                                   where="%s:%s" % (b["file"], t["ln"]),
                                   detail="%s receiver %s gets parameters %s, expected %s" % (axis, t.get("impl_self", recv_ty), got, want))
                        elif nargs in (5, 6) and not is_closure:
                            off = nargs - 4
                            got = [params(a) for a in t["args"][off:]]
                            want = [{base + i} for i in range(4)]
                            n = cnt.get((name, "4"), 0)
                            cnt[(name, "4")] = n + 1
                            chk.ob(rid, "%s:%s:pass-through#%d" % (adt.split("::")[-1] + "." + role, name, n), got == want,
                                   where="%s:%s" % (b["file"], t["ln"]),
                                   detail="nested call passes parameters %s, expected %s" % (got, want))
    # public entry points on Worksheet / Spreadsheet
    for d, b in sorted(fb.mir.items()):
        nm = b.get("name", "")
        if b.get("self_ty") not in ("structs::worksheet::Worksheet", "structs::spreadsheet::Spreadsheet") or b.get("vis") != "pub":
            continue
        axis = "row" if "_row" in nm else ("col" if "_column" in nm else None)
        if axis is None or not (nm.startswith("insert_new_") or nm.startswith("remove_")):
            continue
        fl = Flow(fb, b)
        n = 0
        for bi, t in fl.calls():
            orig = t.get("orig", t.get("fn", ""))
            name = orig.split("::")[-1]
            if not name.startswith("adjustment_") or len(t["args"]) not in (5, 6):
                continue
            chk.touch(d)
            four = t["args"][-4:]
            kinds = []
            for a in four:
                at = fl.atoms(a, through_calls=True)
                consts = {x[1] for x in at if x[0] == "const"}
                args = {x[1] for x in at if x[0] == "arg"}
                kinds.append("zero" if (not args and consts == {0}) else ("param" if args else "other"))
            want = ["zero", "zero", "param", "param"] if axis == "row" else ["param", "param", "zero", "zero"]
            chk.ob(rid, "%s:%s#%d" % (d, name, n), kinds == want, where="%s:%s" % (b["file"], t["ln"]),
                   detail="%s edit passes %s, expected %s" % (axis, kinds, want))
            n += 1


# ------------------------------------------------------------------------------------------------
# C07.e move/copy bounds
def rule_move(chk, fb):
    rid = chk.rule(
        "C07.e",
        "move/copy: the function that re-inserts cells at an offset rejects (diverges on) out-of-grid destinations before any cell is touched — comparisons against 1, 16384 and 1048576 dominate the first mutation — and on the move path every removal precedes the re-insertion",
        floor=3,
    )
    for d, b in sorted(fb.mir.items()):
        if b.get("self_ty") != "structs::worksheet::Worksheet" or b["kind"] != "AssocFn":
            continue
        tys = [fb.ty(b["locals"][i]["t"]) for i in range(1, b["argc"] + 1)]
        if tys.count("&i32") != 2 or "bool" not in tys:
            continue
        chk.touch(d)
        cfg = CFG(b)
        fl = Flow(fb, b)
        # bound comparisons
        consts = {}
        for bi, bl in enumerate(b["blocks"]):
            for s in bl["s"]:
                if s["k"] == "assign" and s["rv"]["k"] == "bin" and s["rv"]["op"] in ("Lt", "Le", "Gt", "Ge"):
                    for side in ("a", "b"):
                        c = s["rv"][side].get("i")
                        if c is not None:
                            consts.setdefault(c, []).append(bi)
        # first mutation of the cell store: calls whose receiver derives from field cell_collection with &mut
        muts = []
        for bd in bodies_with_closures(fb, d):
            bb = fb.mir[bd]
            for bi, t in fb.calls_in(bb):
                f = t.get("fn", "")
                if f.endswith("Cells::remove") or f.endswith("Worksheet::set_cell") or f.endswith("Cells::set") or f.endswith("Cells::add"):
                    muts.append((bd, bi, t))
        panics = [bi for bi, bl in enumerate(b["blocks"]) if bl["t"]["k"] == "call" and "t" not in bl["t"] and not bl.get("cleanup")]
        for c, label in ((1, "lower"), (16384, "max-column"), (1048576, "max-row")):
            blocks = consts.get(c, [])
            # each such comparison must lead to a diverging block and dominate all mutation sites in the outer body
            ok = bool(blocks) and bool(panics)
            if ok:
                for bd, bi, t in muts:
                    if bd == d and not any(cfg.dominates(x, bi) for x in blocks):
                        ok = False
                # closure creation sites for closures that mutate
                for bi, bl in enumerate(b["blocks"]):
                    for s in bl["s"]:
                        if s["k"] == "assign" and s["rv"]["k"] == "agg" and s["rv"].get("ak") == "closure":
                            if not any(cfg.dominates(x, bi) for x in blocks):
                                ok = False
            chk.ob(rid, "%s:bound(%s)" % (d, label), ok, where=fb.loc(d), detail="comparison with %d %s every mutation of the cell store" % (c, "dominates" if ok else "is missing or does not dominate"))
        # removal precedes re-insertion: every set_cell site is not followed by a Cells::remove
        ins = [bi for bd, bi, t in muts if bd == d and (t["fn"].endswith("set_cell") or t["fn"].endswith("Cells::set"))]
        rem_sites = [bi for bi, bl in enumerate(b["blocks"]) for s in bl["s"] if s["k"] == "assign" and s["rv"]["k"] == "agg" and s["rv"].get("ak") == "closure"]
        rem_sites += [bi for bd, bi, t in muts if bd == d and t["fn"].endswith("Cells::remove")]
        ok = bool(ins) and bool(rem_sites)
        for i in ins:
            r = cfg.reachable_strict(i)
            if any(x in r for x in rem_sites):
                ok = False
        chk.ob(rid, "%s:remove-before-insert" % d, ok, where=fb.loc(d), detail="no removal is reachable after a re-insertion: %s" % ok)


OFFSET_ARGS = {T_COORD: {3, 5}, T_SHEET: {4, 6}, T_VALUE: {3}}
CMP_NAMES = ("eq", "ne", "lt", "le", "gt", "ge", "cmp", "partial_cmp")


def call_family(t):
    """Trait of the family a call belongs to, by the trait method it resolves from (or the 2-sheet inherent methods)."""
    o = t.get("orig", t.get("fn", ""))
    for tr in FAMILY:
        if o.startswith(tr + "::") or ("<" in t.get("fn", "") and (" as " + tr + ">") in t.get("fn", "")):
            return tr
    if "with_2sheet" in o:
        return "2sheet"
    return None


def rule_unconditional(chk, fb, traits=(T_COORD, T_VALUE), prefix="C07.c", offset_args=None):
    rid = chk.rule(
        prefix + ".uncond",
        "fan-out is unconditional: inside an adjustment impl a same-family call on a component is control-dependent only on iteration, on the presence of an optional component, on `offset == 0` tests of its own parameters, or (leaf address) on equality of its own sheet-name field with the edited sheet — never on a comparison involving positions, extents or other data",
        floor=10,
    )
    offs = dict(OFFSET_ARGS)
    if offset_args:
        offs.update(offset_args)
    for trait in traits:
        for adt, meths in sorted(impl_methods(fb, trait).items()):
            for role in ("insert", "remove"):
                d = meths.get(role)
                if not d or d not in fb.mir:
                    continue
                b = fb.mir[d]
                cfg = CFG(b)
                fl = Flow(fb, b)
                n = 0
                for bi, t in fl.calls():
                    if not family_call(t, role):
                        continue
                    fam = call_family(t)
                    same = fam == trait or (trait in (T_COORD, T_VALUE) and fam in (T_COORD, T_VALUE)) or (trait not in FAMILY and fam == "2sheet") or (fam == "2sheet" and trait == T_SHEET)
                    if not same:
                        continue
                    bad = []
                    for x in cfg.control_deps_transitive(bi):
                        sw = b["blocks"][x]["t"]
                        at = fl.atoms(sw["op"])
                        cmps = [a for a in at if a[0] == "call" and a[1].split("::")[-1] in CMP_NAMES]
                        bincmp = False
                        if "p" in sw["op"]:
                            for dd in fl.defs.get(sw["op"]["p"]["l"], []):
                                if dd[0] == "rv" and dd[3]["k"] == "bin" and dd[3]["op"] in ("Lt", "Le", "Gt", "Ge", "Eq", "Ne") :
                                    # discriminant tests of Option are Eq on discr: allow only when an operand is a discriminant
                                    ops_at = fl.atoms(dd[3]["a"]) | fl.atoms(dd[3]["b"])
                                    if not any(_is_discr_def(fl, o) for o in (dd[3]["a"], dd[3]["b"])):
                                        bincmp = True
                        if not cmps and not bincmp:
                            continue
                        args = {a[1] for a in at if a[0] == "arg"}
                        fields = [a for a in at if a[0] == "field"]
                        others = [a for a in at if a[0] == "call" and a[1].split("::")[-1] not in CMP_NAMES + ("deref", "as_ref", "borrow", "as_str")]
                        if args and args <= offs.get(trait, set()) and not fields and not others:
                            continue  # offset-zero test
                        if cmps and all(c[1].split("::")[-1] in ("eq", "ne") for c in cmps) and not bincmp and not others and any(f[1] == adt and "str" in fb.field_types(adt).get(f[2], "") for f in fields) and len(args - {1}) == 1:
                            continue  # leaf: own sheet-name field == edited sheet
                        bad.append("%s:%s" % (b["file"], sw["ln"]))
                    chk.touch(d)
                    chk.ob(rid, "%s[%s].%s#%d" % (adt.split("::")[-1], trait.split("::")[-1], role, n), not bad, where="%s:%s" % (b["file"], t["ln"]),
                           detail="call %s is %s" % (t.get("orig", t["fn"]).split("::")[-1], "guarded only by iteration / presence / offset-zero tests" if not bad else "additionally guarded by a data comparison at %s: content for which it is false is silently not relocated" % bad))
                    n += 1


def _is_discr_def(fl, o):
    if "p" not in o:
        return False
    for dd in fl.defs.get(o["p"]["l"], []):
        if dd[0] == "rv" and dd[3]["k"] == "discr":
            return True
    return False


def rule_move_clear(chk, fb):
    rid = chk.rule(
        "C07.e.clear",
        "move clears the whole rectangle: the removals of the move path (source and translated destination coordinate) are driven by an enumeration of every coordinate of the range, not by the cells that happen to exist",
        floor=2,
    )
    enum_fns = {d for d, b in fb.mir.items() if b["kind"] == "Fn" and b["argc"] == 1 and fb.ty(b["locals"][1]["t"]) in ("&str", "T", "S") and fb.ty(b["locals"][0]["t"]) == "std::vec::Vec<(u32, u32)>"}
    for d, b in sorted(fb.mir.items()):
        if b.get("self_ty") != "structs::worksheet::Worksheet" or b["kind"] != "AssocFn":
            continue
        tys = [fb.ty(b["locals"][i]["t"]) for i in range(1, b["argc"] + 1)]
        if tys.count("&i32") != 2 or "bool" not in tys:
            continue
        # removals inside closures / body
        for bd in bodies_with_closures(fb, d):
            bb = fb.mir[bd]
            fl = Flow(fb, bb)
            rem = [(bi, t) for bi, t in fl.calls(lambda t: t.get("fn", "").endswith("Cells::remove"))]
            if not rem:
                continue
            # what drives this body: for a closure, the iterator it is passed to in the parent
            driver_ok = False
            drv = "?"
            if bd != d:
                pfl = Flow(fb, b)
                for bi, t in pfl.calls():
                    for a in t["args"][1:]:
                        if any(x[0] == "cfn" and x[1] == bd for x in pfl.atoms(a)):
                            at = pfl.atoms(t["args"][0])
                            calls = {x[1] for x in at if x[0] == "call"}
                            drv = sorted(c.split("::")[-1] for c in calls if c in fb.mir)
                            driver_ok = bool(calls & enum_fns) and not any("Cells::iter" in c or "cell_collection" in c for c in calls)
            else:
                for bi, t in rem:
                    at = fl.atoms(t["args"][1]) | fl.atoms(t["args"][2])
                    calls = {x[1] for x in at if x[0] == "call"}
                    drv = sorted(c.split("::")[-1] for c in calls if c in fb.mir)
                    driver_ok = bool(calls & enum_fns)
            chk.touch(d)
            for n, (bi, t) in enumerate(rem):
                chk.ob(rid, "%s:remove#%d" % (d, n), driver_ok, where="%s:%s" % (bb["file"], t["ln"]), detail="removal driven by %s; full-rectangle enumerators: %s" % (drv, sorted(x.split("::")[-1] for x in enum_fns)))


def _from_incoming(b, src, f, depth=0):
    """src is (_2.f) or a temporary that was moved out of (_2.f)."""
    if src.get("l") == 2 and any(isinstance(e, dict) and e.get("f") == f for e in src.get("pr", [])):
        return True
    if depth > 2 or src.get("pr"):
        return False
    for bl in b["blocks"]:
        for st in bl["s"]:
            if st["k"] == "assign" and st["lhs"]["l"] == src.get("l") and not st["lhs"].get("pr") and st["rv"]["k"] == "use" and "p" in st["rv"]["op"]:
                if _from_incoming(b, st["rv"]["op"]["p"], f, depth + 1):
                    return True
    return False

def rule_replace_cell(chk, fb):
    """move/copy put the source cell at the destination *as it was*: the helper that overwrites a stored cell with an
    incoming one takes value and style from the incoming cell on every path."""
    CELL = "structs::cell::Cell"
    r = chk.rule(
        "C07.e.obj",
        "a cell placed on an occupied position replaces value, style and hyperlink: in the Cell method that overwrites self from an incoming Cell, the fields holding the value/formula, the style and the hyperlink are assigned from the incoming cell on every path",
        floor=2,
    )
    cands = [d for d, b in fb.mir.items() if b.get("self_ty") == CELL and b["kind"] == "AssocFn" and b["argc"] == 2 and fb.ty(b["locals"][2]["t"]) == CELL and fb.ty(b["locals"][1]["t"]) == "&mut " + CELL]
    if not cands:
        chk.ob(r, "anchor", False, detail="no Cell method taking an incoming Cell by value")
        return
    for d in sorted(cands):
        b = fb.mir[d]
        cfg = CFG(b)
        chk.touch(d)
        for f in ("cell_value", "style", "hyperlink"):
            blocks = []
            for bi, bl in enumerate(b["blocks"]):
                for st in bl["s"]:
                    if st["k"] != "assign":
                        continue
                    pr = st["lhs"].get("pr", [])
                    if st["lhs"]["l"] == 1 and any(isinstance(e, dict) and e.get("of") == CELL and e.get("f") == f for e in pr):
                        src = st["rv"].get("op", {}).get("p", {})
                        if _from_incoming(b, src, f):
                            blocks.append(bi)
            always = any(cfg.postdominates(x, 0) or x == 0 for x in blocks)
            chk.ob(r, "%s:%s" % (d.split("::")[-1], f), always, where=fb.loc(d),
                   detail="self.%s = incoming.%s %s" % (f, f, "on every path" if always else ("only on some paths (a destination that already has one keeps it)" if blocks else "is never assigned")))


def rule_keyed_rows(chk, fb):
    """Row settings live in a map keyed by the row number, and the number is also stored inside each entry: after the
    entries' numbers were shifted the map must be re-keyed, whatever else happened."""
    r = chk.rule(
        "C07.g",
        "re-key after shifting: in the container that keeps row settings in a map keyed by row number, every method that shifts the numbers stored in the entries is followed on every path by the method that rebuilds the map from those numbers",
        floor=2,
    )
    owner = None
    for a, ad in fb.adts.items():
        if ad["kind"] == "struct":
            for f in ad["variants"][0]["fields"]:
                if f["ty"].startswith("std::collections::HashMap<u32, std::boxed::Box<") and f["ty"].endswith("Row>>"):
                    owner, mapf = a, f["name"]
    if not owner:
        chk.ob(r, "anchor", False, detail="no map of row settings keyed by row number found")
        return
    rebuild = None
    for d, b in fb.mir.items():
        if b.get("self_ty") == owner and b["kind"] == "AssocFn":
            for bl in b["blocks"]:
                for st in bl["s"]:
                    if st["k"] == "assign" and st["lhs"]["l"] == 1 and [e.get("f") for e in st["lhs"].get("pr", []) if isinstance(e, dict)] == [mapf]:
                        if any(t.get("fn", "").endswith("::collect") for _, t in fb.calls_in(b)):
                            rebuild = d
    if not rebuild:
        chk.ob(r, "rebuild", False, where=fb.adts[owner]["file"], detail="no method rebuilds the map from the entries' own numbers")
        return
    for d, b in sorted(fb.mir.items()):
        if d.split("::{closure")[0] != d:
            continue
        root_ty = b.get("self_ty") or b.get("impl_self")
        if root_ty != owner:
            continue
        is_shift = lambda t: t.get("fn", "").split("::")[-1] in ("adjustment_insert_value", "adjustment_remove_value") and "Row" in t.get("fn", "")
        shifts = [bi for bi, t in fb.calls_in(b) if is_shift(t)]
        # ... or inside a closure handed to an iterator adaptor (for_each): the call that takes the closure is the site
        shifting_closures = {bd for bd in bodies_with_closures(fb, d) if bd != d and any(is_shift(t) for _, t in fb.calls_in(fb.mir[bd]))}
        if shifting_closures:
            pfl = Flow(fb, b)
            for bi, t in pfl.calls():
                if any(x[0] == "cfn" and x[1] in shifting_closures for a in t["args"] for x in pfl.atoms(a)) and not t.get("fn", "").endswith(("::retain", "::retain_mut")):
                    shifts.append(bi)
        if not shifts:
            continue
        cfg = CFG(b)
        rb = [bi for bi, t in fb.calls_in(b) if t.get("fn") == rebuild]
        ok = all(any(cfg.postdominates(x, s_) for x in rb) for s_ in shifts)
        chk.touch(d, rebuild)
        chk.ob(r, "%s" % d.split("::", 2)[-1], ok, where=fb.loc(d), detail="entries are shifted at %d site(s); %s" % (len(shifts), "the map is rebuilt afterwards on every path" if ok else "on some path the map keeps its old keys (settings stay reachable under their old row numbers)"))


def rule_band_position(chk, fb):
    r = chk.rule(
        "C07.c.pos",
        "an object lies in the removed band iff its own cell/row/column/range does: the band predicate of the listed objects (spec/kernels.py POSITION_FIELDS) reads exactly the field that attaches the object to the grid",
        floor=4,
    )
    for adt, want in sorted(K.POSITION_FIELDS.items()):
        preds = [d for d, b in fb.mir.items() if b.get("self_ty") == adt and d.split("::")[-1] in ("is_remove_coordinate", "is_remove_value", "is_remove_coordinate_with_sheet")]
        if not preds:
            chk.ob(r, adt.split("::")[-1], False, detail="no band predicate found")
            continue
        for d in preds:
            read = fields_read(fb, d, adt)
            chk.touch(d)
            chk.ob(r, "%s::%s" % (adt.split("::")[-1], d.split("::")[-1]), read == want, where=fb.loc(d),
                   detail="predicate reads %s; the object's position is %s%s" % (sorted(read), sorted(want), "" if read == want else " - an object whose cell lies outside the band can be deleted (or one inside kept)"))


GRID_MAX = (16384, 1048576)


def rule_grid_limits_inclusive(chk, fb, rid="C07.h"):
    """Row 1048576 and column 16384 (XFD) are cells: a half-open range `a..MAX` used as a membership test leaves the last
    row / column out (references in the last row are then not parsed, not moved, not merged)."""
    r = chk.rule(
        rid,
        "grid limits are inclusive: no membership test `Range::contains` on a half-open range whose end is exactly the grid maximum (16384 / 1048576); `..=MAX`, `a..MAX + 1` and comparisons `> MAX` are the inclusive forms",
        floor=1,
    )
    n = 0
    bad = []
    for d, b in sorted(fb.mir.items()):
        if b["file"].startswith("tests"):
            continue
        fl = None
        for bi, t in fb.calls_in(b):
            if t.get("fn", "").split("::")[-1] == "contains" and t.get("impl_self", "").startswith("std::ops::Range<"):
                fl = fl or Flow(fb, b)
                n += 1
                consts = {a[1] for a in fl.atoms(t["args"][0]) if a[0] == "const"}
                hit = sorted(c for c in consts if c in GRID_MAX)
                if hit:
                    bad.append("%s:%s (end %s)" % (b["file"], t.get("ln"), hit[0]))
                    chk.touch(d)
                    chk.ob(r, "%s:contains" % d.split("::{closure")[0], False, where="%s:%s" % (b["file"], t.get("ln")), detail="half-open range ending at the grid maximum %s: the last row / column is excluded" % hit[0])
    chk.ob(r, "half-open-membership-tests", not bad, where="src", detail="%d `Range::contains` call(s) inspected; ending exactly at a grid maximum: %s" % (n, bad or "none"))


def run(chk, fb, tier):
    rule_grid_limits_inclusive(chk, fb)
    rule_scalar(chk, fb)
    rule_range(chk, fb, tier)
    rule_fanout(chk, fb, tier)
    rule_other_sheets(chk, fb)
    rule_axes(chk, fb)
    rule_move(chk, fb)
    rule_move_clear(chk, fb)
    rule_replace_cell(chk, fb)
    rule_keyed_rows(chk, fb)
    rule_band_position(chk, fb)
    rule_unconditional(chk, fb)
    chk.assume("std collections (ThinVec/Vec retain, iteration) behave as documented")
    chk.note("not decided: equality with a reference grid after arbitrary histories (value-level)")
