"""C09 — formula text survives the tokenizer; translation shifts only relative refs.
Structural clauses a–d (DESIGN.md section 4). Anchors are found by role:
  tokenizer  = the function of helper::formula that returns Vec<FormulaToken> from text and holds a
               `while <counter> < <length>` loop over `chars().nth(counter)`;
  translate  = the pub fn of helper::formula taking (&mut [FormulaToken], &i32, &i32)."""
from cfg import CFG
from mirq import Flow, const_of
import hirq

NEG = -9  # "unknown" lower bound


def _named(body, name):
    return [i for i, l in enumerate(body["locals"]) if l.get("n") == name]


def find_tokenizer(fb):
    out = []
    for d, b in fb.mir.items():
        if not b["file"].endswith("helper/formula.rs") or b["kind"] == "Closure":
            continue
        nth = sum(1 for _, t in fb.calls_in(b) if t.get("fn") == "std::iter::Iterator::nth")
        ret = fb.ty(b["locals"][0]["t"])
        if nth >= 5 and "FormulaToken" in ret:
            out.append(d)
    return out


# ---------------------------------------------------------------------------------------------
# loop progress (C09.a)
def counter_loops(fb, body, cfg):
    """Natural loops whose exit test compares a named mutable integer local (the counter) with
    another value through Lt/Le/Gt/Ge. Yields (head, loop blocks, counter local, direction)."""
    loops = {}
    for tail, head in cfg.back_edges():
        loops.setdefault(head, set()).update(cfg.natural_loop(tail, head))
    res = []
    for head, blocks in sorted(loops.items()):
        found = None
        for b in sorted(blocks):
            t = body["blocks"][b]["t"]
            if t["k"] != "switch":
                continue
            if all(s in blocks for s in cfg.succ[b]):
                continue  # not an exit test
            # the switch operand: a bool temp defined by a comparison in this block
            if "p" not in t["op"]:
                continue
            cl = t["op"]["p"]["l"]
            for s in body["blocks"][b]["s"]:
                if s["k"] == "assign" and s["lhs"]["l"] == cl and s["rv"]["k"] == "bin" and s["rv"]["op"] in ("Lt", "Le", "Gt", "Ge"):
                    for side, direction in (("a", +1 if s["rv"]["op"] in ("Lt", "Le") else -1), ("b", -1 if s["rv"]["op"] in ("Lt", "Le") else +1)):
                        o = s["rv"][side]
                        if "p" not in o:
                            continue
                        root = _copy_root(body, b, o["p"]["l"])
                        loc = body["locals"][root]
                        if loc.get("n") and loc.get("mut") and fb.ty(loc["t"]) in ("usize", "u32", "i32", "u64", "i64", "u16", "u8", "isize"):
                            # counter must be assigned inside the function after init
                            found = (root, direction, b)
                            break
                if found:
                    break
            if found:
                break
        if found:
            res.append((head, blocks, found[0], found[1], found[2]))
    return res


def _copy_root(body, bi, l):
    """Follow `tmp = copy x` / `tmp = move (t.0)` / `t = AddWithOverflow(copy x, c)` inside block bi."""
    seen = set()
    while l not in seen:
        seen.add(l)
        nxt = None
        for s in body["blocks"][bi]["s"]:
            if s["k"] == "assign" and s["lhs"]["l"] == l and not s["lhs"].get("pr"):
                rv = s["rv"]
                if rv["k"] == "use" and "p" in rv["op"]:
                    nxt = rv["op"]["p"]["l"]
                elif rv["k"] == "bin" and rv["op"] in ("AddWithOverflow", "Add", "SubWithOverflow", "Sub") and "p" in rv["a"]:
                    nxt = rv["a"]["p"]["l"]
        if nxt is None:
            # look in dominating straight-line predecessors? keep local: temps are block-local
            return l
        l = nxt
    return l


def step_blocks(body, counter, direction):
    """Blocks holding an assignment counter := counter (+|-) positive constant."""
    out = set()
    # tmp = AddWithOverflow(copy counter, const c) ; counter = move tmp.0
    adders = {}
    for bi, bl in enumerate(body["blocks"]):
        for s in bl["s"]:
            if s["k"] == "assign" and s["rv"]["k"] == "bin":
                rv = s["rv"]
                op = rv["op"]
                want = ("AddWithOverflow", "Add") if direction > 0 else ("SubWithOverflow", "Sub")
                if op in want and "p" in rv["a"] and rv["a"]["p"]["l"] == counter and not rv["a"]["p"].get("pr"):
                    c = rv["b"].get("i")
                    if isinstance(c, int) and c > 0:
                        adders[s["lhs"]["l"]] = c
    for bi, bl in enumerate(body["blocks"]):
        for s in bl["s"]:
            if s["k"] == "assign" and s["lhs"]["l"] == counter and not s["lhs"].get("pr"):
                rv = s["rv"]
                if rv["k"] == "use" and "p" in rv["op"] and rv["op"]["p"]["l"] in adders:
                    out.add(bi)
    return out


def rule_progress(chk, fb, d):
    body = fb.mir[d]
    cfg = CFG(body)
    chk.touch(d)
    rid = chk.rule(
        "C09.a",
        "loop progress: every cycle of a `while counter < bound` loop of the tokenizer passes an assignment that strictly advances the counter",
        floor=1,
    )
    for head, blocks, counter, direction, testb in counter_loops(fb, body, cfg):
        steps = step_blocks(body, counter, direction) & blocks
        # is there a cycle through the test block that avoids every step block?
        reach = cfg.reachable_strict(testb, avoid=steps | (set(range(cfg.n)) - blocks))
        ok = testb not in reach
        bad_line = None
        if not ok:
            # one offending cycle, described by the source lines of its last few blocks
            prev = {}
            work = [testb]
            seenb = set()
            while work:
                x = work.pop(0)
                for y in cfg.succ[x]:
                    if y in blocks and y not in steps and y not in prev:
                        prev[y] = x
                        if y != testb:
                            work.append(y)
            lines = []
            x = prev.get(testb)
            while x is not None and x != testb and len(lines) < 400:
                for st in body["blocks"][x]["s"]:
                    if st.get("ln") and st["k"] == "assign":
                        lines.append(st["ln"])
                x = prev.get(x)
            bad_line = sorted(set(lines))[-3:] if lines else None
        name = body["locals"][counter].get("n")
        # instance descriptor: nth loop on that counter, in source order of the test
        chk.ob(
            rid,
            "%s:loop(%s)#%d" % (d, name, sorted(h for h, *_ in counter_loops_cache(fb, body, cfg)).index(head)),
            ok,
            where="%s:%s" % (body["file"], body["blocks"][testb]["t"]["ln"]),
            detail="counter `%s`, %d block(s) in loop, %d advancing block(s)%s"
            % (name, len(blocks), len(steps), "" if ok else "; a cycle that does not advance the counter returns to the loop test from line %s" % bad_line),
        )


_clc = {}


def counter_loops_cache(fb, body, cfg):
    k = id(body)
    if k not in _clc:
        _clc[k] = counter_loops(fb, body, cfg)
    return _clc[k]


# ---------------------------------------------------------------------------------------------
# every mode enterable (C09.b)
def rule_modes(chk, fb, d):
    body = fb.mir[d]
    rid = chk.rule(
        "C09.b",
        "every lexer mode is enterable: a named bool flag that guards a branch and starts false is assigned true somewhere",
        floor=4,
    )
    flags = [i for i, l in enumerate(body["locals"]) if l.get("n") and fb.ty(l["t"]) == "bool" and l.get("mut")]
    for fl in flags:
        tested = False
        sets = set()
        for bl in body["blocks"]:
            for s in bl["s"]:
                if s["k"] != "assign":
                    continue
                if s["lhs"]["l"] == fl and not s["lhs"].get("pr"):
                    rv = s["rv"]
                    if rv["k"] == "use" and "i" in rv["op"]:
                        sets.add(rv["op"]["i"])
                    else:
                        sets.add("expr")
                elif s["rv"]["k"] == "use" and "p" in s["rv"]["op"] and s["rv"]["op"]["p"]["l"] == fl:
                    tested = True
                elif s["rv"]["k"] == "un" and "p" in s["rv"]["a"] and s["rv"]["a"]["p"]["l"] == fl:
                    tested = True
            t = bl["t"]
            if t["k"] == "switch" and "p" in t["op"] and t["op"]["p"]["l"] == fl:
                tested = True
        if not tested or 0 not in sets:
            continue
        name = body["locals"][fl]["n"]
        ok = 1 in sets or "expr" in sets
        chk.ob(
            rid,
            "%s:flag(%s)" % (d, name),
            ok,
            where="%s:%s" % (body["file"], body["line"]),
            detail="flag `%s` assigned %s" % (name, sorted(map(str, sets))) + ("" if ok else " — never true: the branch it guards is dead"),
        )


# ---------------------------------------------------------------------------------------------
# bounds before use (C09.c): difference-bound analysis  d <= len - counter
def rule_bounds(chk, fb, d):
    body = fb.mir[d]
    cfg = CFG(body)
    rid = chk.rule(
        "C09.c",
        "bounds before use: chars().nth(counter+k).unwrap() is reached only where counter+k < length is established since the last change of counter (difference-bound dataflow)",
        floor=25,
    )
    loops = counter_loops_cache(fb, body, cfg)
    if not loops:
        return
    counter = loops[0][2]
    # the bound local: the other operand of the first loop test
    testb = loops[0][4]
    bound = None
    t = body["blocks"][testb]["t"]
    cl = t["op"]["p"]["l"]
    for s in body["blocks"][testb]["s"]:
        if s["k"] == "assign" and s["lhs"]["l"] == cl and s["rv"]["k"] == "bin":
            for side in ("a", "b"):
                o = s["rv"][side]
                if "p" in o:
                    r = _copy_root(body, testb, o["p"]["l"])
                    if r != counter:
                        bound = r
    if bound is None:
        return
    nblocks = len(body["blocks"])
    # state: (d, rel: {local: k}  meaning local == counter + k, isb: set of locals == bound, cond: {local: (k)} true => d >= k)
    IN = [None] * nblocks

    def join(a, b):
        if a is None:
            return b
        if b is None:
            return a
        d0 = min(a[0], b[0])
        rel = {k: v for k, v in a[1].items() if b[1].get(k) == v}
        isb = a[2] & b[2]
        cond = {k: v for k, v in a[3].items() if b[3].get(k) == v}
        return (d0, rel, isb, cond)

    def clamp(x):
        return NEG if x < -4 else min(x, 8)

    def lin(st, o):
        """operand -> ('c', k) counter+k | ('b',) bound | ('k', const) | None"""
        if "i" in o:
            return ("k", o["i"])
        if "p" in o and not o["p"].get("pr"):
            l = o["p"]["l"]
            if l == counter:
                return ("c", 0)
            if l == bound or l in st[2]:
                return ("b",)
            if l in st[1]:
                return ("c", st[1][l])
        if "p" in o and o["p"].get("pr"):
            pr = o["p"]["pr"]
            if len(pr) == 1 and isinstance(pr[0], dict) and pr[0].get("f") == "0":
                key = ("t0", o["p"]["l"])
                if key in st[1]:
                    return ("c", st[1][key])
        return None

    def transfer(bi, st):
        d0, rel, isb, cond = st[0], dict(st[1]), set(st[2]), dict(st[3])
        sites = []
        for s in body["blocks"][bi]["s"]:
            if s["k"] != "assign":
                continue
            lhs = s["lhs"]
            if lhs.get("pr"):
                continue
            l = lhs["l"]
            rv = s["rv"]
            cur = (d0, rel, isb, cond)
            new_rel = None
            new_isb = False
            new_cond = None
            if rv["k"] == "use":
                v = lin(cur, rv["op"])
                if v and v[0] == "c":
                    new_rel = v[1]
                elif v and v[0] == "b":
                    new_isb = True
                elif "p" in rv["op"] and not rv["op"]["p"].get("pr") and rv["op"]["p"]["l"] in cond:
                    new_cond = cond[rv["op"]["p"]["l"]]
            elif rv["k"] == "bin" and rv["op"] in ("AddWithOverflow", "Add"):
                a, b = lin(cur, rv["a"]), lin(cur, rv["b"])
                if a and b and a[0] == "c" and b[0] == "k":
                    if rv["op"] == "Add":
                        new_rel = a[1] + b[1]
                    else:
                        rel[("t0", l)] = a[1] + b[1]
            elif rv["k"] == "bin" and rv["op"] in ("Lt", "Le", "Gt", "Ge"):
                a, b = lin(cur, rv["a"]), lin(cur, rv["b"])
                op = rv["op"]
                if a and b:
                    if a[0] == "b" and b[0] == "c":
                        a, b = b, a
                        op = {"Lt": "Gt", "Le": "Ge", "Gt": "Lt", "Ge": "Le"}[op]
                    if a[0] == "c" and b[0] == "b":
                        if op == "Lt":  # counter+k < len  => len-counter >= k+1
                            new_cond = a[1] + 1
                        elif op == "Le":
                            new_cond = a[1]
            if l == counter:
                if new_rel is not None:
                    # counter := counter + k
                    k = new_rel
                    d0 = clamp(d0 - k) if d0 != NEG else NEG
                    rel = {x: v - k for x, v in rel.items()}
                    cond = {}
                else:
                    d0, rel, cond = NEG, {}, {}
                continue
            if l == bound:
                d0, cond, isb = NEG, {}, set()
                continue
            rel.pop(l, None)
            rel.pop(("t0", l), None) if not (rv["k"] == "bin" and rv["op"] == "AddWithOverflow") else None
            isb.discard(l)
            cond.pop(l, None)
            if new_rel is not None:
                rel[l] = new_rel
            if new_isb:
                isb.add(l)
            if new_cond is not None:
                cond[l] = new_cond
        st2 = (d0, rel, isb, cond)
        t = body["blocks"][bi]["t"]
        outs = {}
        if t["k"] == "call" and t.get("fn") == "std::iter::Iterator::nth":
            v = lin(st2, t["args"][1])
            sites.append((bi, v, d0))
        if t["k"] == "call":
            # the call result overwrites dest
            l = t["dest"]["l"]
            rel2 = dict(rel)
            rel2.pop(l, None)
            st2 = (d0, rel2, isb - {l}, {k: v for k, v in cond.items() if k != l})
        if t["k"] == "switch" and "p" in t["op"] and t["op"]["p"]["l"] in cond and not t["op"]["p"].get("pr"):
            need = cond[t["op"]["p"]["l"]]
            for val, tgt in t["targets"]:
                outs[tgt] = st2 if val == 0 else (max(d0, need), st2[1], st2[2], st2[3])
            o = t["otherwise"]
            # otherwise edge = "true" when the only explicit target is 0
            if all(val == 0 for val, _ in t["targets"]):
                outs[o] = (max(d0, need), st2[1], st2[2], st2[3])
            else:
                outs[o] = st2
        else:
            for s_ in cfg.succ[bi]:
                outs[s_] = st2
        return outs, sites

    IN[0] = (NEG, {}, set(), {})
    work = [0]
    inwork = {0}
    iters = 0
    while work:
        bi = work.pop()
        inwork.discard(bi)
        iters += 1
        if iters > 200000:
            raise RuntimeError("difference-bound analysis did not converge")
        outs, _ = transfer(bi, IN[bi])
        for s_, st in outs.items():
            j = join(IN[s_], st) if IN[s_] is not None else st
            if IN[s_] is None or j != IN[s_]:
                IN[s_] = j
                if s_ not in inwork:
                    work.append(s_)
                    inwork.add(s_)
    # evaluate sites
    seen_k = {}
    for bi in range(nblocks):
        if IN[bi] is None:
            continue
        _, sites = transfer(bi, IN[bi])
        for (b, v, d0) in sites:
            t = body["blocks"][b]["t"]
            # only sites whose result is unwrapped
            if v is None or v[0] != "c":
                continue  # index not derived from the counter: out of this rule's scope
            k = v[1]
            ok = d0 != NEG and d0 >= k + 1
            n = seen_k.get(k, 0)
            seen_k[k] = n + 1
            chk.ob(
                rid,
                "%s:nth(%s%+d)#%d" % (d, body["locals"][counter]["n"], k, n),
                ok,
                where="%s:%s" % (body["file"], t["ln"]),
                detail="needs %s+%d < %s; established lower bound of %s-%s here: %s"
                % (body["locals"][counter]["n"], k, body["locals"][bound].get("n"), body["locals"][bound].get("n"), body["locals"][counter]["n"], "none" if d0 == NEG else d0),
                key="%s:nth(%s%+d):%s" % (d, body["locals"][counter]["n"], k, "unguarded" if not ok else "ok#%d" % n),
            )


# ---------------------------------------------------------------------------------------------
# translation kernel (C09.d)
def find_translate(fb):
    out = []
    for d, b in fb.mir.items():
        if b["file"].endswith("helper/formula.rs") and b["kind"] == "Fn" and b["argc"] == 3:
            tys = [fb.ty(b["locals"][i]["t"]) for i in (1, 2, 3)]
            if "FormulaToken" in tys[0] and tys[1] == "&i32" and tys[2] == "&i32":
                out.append(d)
    return out


CELL_INDEX = "(std::option::Option<u32>, std::option::Option<u32>, std::option::Option<bool>, std::option::Option<bool>)"


def is_parser(fb, fn, depth=0):
    """The coordinate parser, or a crate function with the parser's result type that hands on (a filtered view of) what
    the parser returned (e.g. a wrapper that rejects text which merely starts like a reference)."""
    if fn.endswith("index_from_coordinate"):
        return True
    memo = fb.__dict__.setdefault("_is_parser", {})
    if fn in memo:
        return memo[fn]
    memo[fn] = False
    b = fb.mir.get(fn)
    if b and depth < 3 and b["kind"] in ("Fn", "AssocFn") and fb.ty(b["locals"][0]["t"]) == CELL_INDEX:
        memo[fn] = any(is_parser(fb, t.get("fn", ""), depth + 1) for _, t in fb.calls_in(b))
    return memo[fn]


def _regex_anchored(fb, parser):
    """Is every regular expression the parser owns anchored at both ends?"""
    pats = []
    for d, b in fb.mir.items():
        if parser + "::" in d or d == parser:
            fl = Flow(fb, b)
            for _, t in fl.calls(lambda t: t.get("fn", "").endswith("Regex::new")):
                pats += [a[1] for a in fl.atoms(t["args"][0]) if a[0] == "const" and isinstance(a[1], str)]
    return bool(pats) and all(p_.lstrip("(?ixsmU)").startswith("^") and p_.endswith("$") and not p_.endswith("\\$") for p_ in pats), pats


def _text_compared(fb, b, fl, parse_bi, text_atoms):
    """A comparison that decides control flow between the text handed to the parser (and nothing of the parse result)
    and a value computed from the parse result (the re-rendered reference), or a whole-text predicate on the text."""
    for bi, t in fl.calls():
        f = t.get("fn", "")
        last = f.split("::")[-1]
        if last in ("eq", "ne") and "PartialEq" in f and len(t["args"]) == 2:
            ats = [fl.atoms(a) for a in t["args"]]
            for i in (0, 1):
                from_parse = any(x[0] == "call" and x[2] == parse_bi for x in ats[i])
                pure_text = not any(x[0] == "call" and x[2] == parse_bi for x in ats[1 - i]) and bool(text_atoms & ats[1 - i])
                if from_parse and pure_text and _decides(b, fl, bi):
                    return "%s at line %s" % (last, t.get("ln"))
        if last in ("is_address", "is_match") and t["args"] and text_atoms & fl.atoms(t["args"][-1]) and _decides(b, fl, bi):
            return "%s at line %s" % (last, t.get("ln"))
    return None


def _decides(b, fl, call_bi):
    for bl in b["blocks"]:
        t = bl["t"]
        if t["k"] == "switch" and any(x[0] == "call" and x[2] == call_bi for x in fl.atoms(t["op"])):
            return True
    return False


def rule_error_table(chk, fb, rid="C09.i"):
    """The tokenizer leaves its error state only on a literal it knows: every error constant of the formula grammar has
    to be in its table (extra entries are harmless)."""
    import importlib.util, os

    _spec = importlib.util.spec_from_file_location("ecma376", os.path.join(os.path.dirname(__file__), "..", "..", "spec", "ecma376.py"))
    ecma376 = importlib.util.module_from_spec(_spec)
    _spec.loader.exec_module(ecma376)

    r = chk.rule(rid, "error literals: the table of error constants the tokenizer compares its error state against contains every error constant of the formula grammar (ECMA-376 18.17.2.2)", floor=7)
    tables = {}
    for d, h in getattr(fb, "hir_consts", {}).items():
        if not h["file"].endswith("helper/formula.rs"):
            continue
        lits = [x["v"] for x in hirq.walk(h["body"]) if x.get("k") == "lit" and x.get("lt") == "str"]
        if len(lits) >= 3 and all(v.startswith("#") for v in lits):
            tables[d] = lits
    if not tables:
        chk.ob(r, "anchor", False, where="src/helper/formula.rs", detail="no table of '#...' error literals found among the constants of the formula module")
        return
    for d, lits in sorted(tables.items()):
        for e in ecma376.FORMULA_ERROR_LITERALS:
            chk.ob(r, "%s:%s" % (d.split("::")[-1], e), e in lits, where="%s:%s" % (fb.hir_consts[d]["file"], fb.hir_consts[d]["line"]), detail="%s %s in %s" % (e, "is" if e in lits else "is MISSING", lits))


def rule_set_then_get(chk, fb, rid="C09.j"):
    """The translated text that set_coordinate stores is the text get_formula returns afterwards.  A formula object has a
    second text field (the expanded view of a shared formula) that its text getter prefers: storing the plain text into an
    object that may already carry a view leaves the old view in charge."""
    FORMULA = "structs::cell_formula::CellFormula"
    r = chk.rule(
        rid,
        "set then get: the formula text getter prefers the shared-formula view over the plain text, so every function outside the formula object that stores plain text into one does so on a freshly built object or also resets the view in the same function (a stale view would shadow the translated formula)",
        floor=1,
    )
    getter = fb.mir.get(FORMULA + "::get_text")
    if not getter:
        chk.ob(r, "anchor", False, detail="CellFormula::get_text not found")
        return
    read = [e["f"] for bl in getter["blocks"] for st in bl["s"] if st["k"] == "assign" for pl in ([st["rv"].get("place")] if st["rv"]["k"] == "ref" else []) if pl for e in pl.get("pr", []) if isinstance(e, dict) and e.get("of") == FORMULA]
    read = list(dict.fromkeys(read))
    if len(read) < 2:
        chk.note("C09.j: the formula text getter reads a single field (%s): nothing can shadow the plain text" % read)
        chk.ob(r, "getter-single-field", True, where=fb.loc(FORMULA + "::get_text"), detail="get_text reads %s" % read)
        return
    view, plain = read[0], read[-1]

    def setters_of(field):
        out = set()
        for d, b in fb.mir.items():
            if b.get("self_ty") == FORMULA and b["kind"] == "AssocFn" and b["argc"] == 2 and b.get("vis") == "pub":
                fs = {e["f"] for bl in b["blocks"] for st in bl["s"] if st["k"] == "assign" and st["rv"]["k"] == "ref" and st["rv"].get("mut") for e in st["rv"]["place"].get("pr", []) if isinstance(e, dict) and e.get("of") == FORMULA}
                if fs == {field}:
                    out.add(d)
        return out

    plain_setters, view_setters = setters_of(plain), setters_of(view)
    n = 0
    for ps in sorted(plain_setters):
        for c in sorted({x[0] for x in fb.callers.get(ps, ())}):
            b = fb.mir.get(c)
            if not b or b.get("self_ty") == FORMULA or b["file"].startswith("tests") or "::tests::" in c:
                continue
            fl = Flow(fb, b)
            chk.touch(c)
            resets = any(t.get("fn") in view_setters or (t.get("fn", "").endswith("remove_value") and any(a[0] == "field" and a[2] == view for a in fl.atoms(t["args"][0]))) for _, t in fl.calls())
            for bi, t in fl.calls(lambda t: t.get("fn") == ps):
                at = fl.atoms(t["args"][0])
                fresh = any(a[0] == "call" and a[1].endswith("Default>::default") and FORMULA in a[1] for a in at) and not any(a[0] == "field" and a[1] != FORMULA for a in at) and not any(a[0] == "arg" for a in at)
                chk.ob(r, "%s->%s#%d" % (c.split("::", 1)[-1], ps.split("::")[-1], n), fresh or resets, where="%s:%s" % (b["file"], t.get("ln")),
                       detail="plain text stored into %s; view reset in the same function: %s" % ("a freshly built formula object" if fresh else "an object that may already exist (%s)" % sorted(a for a in at if a[0] in ("field", "arg"))[:3], resets))
                n += 1


def rule_every_token(chk, fb, kernels, rid, floor=1):
    """Every operand of the formula is visited: the kernel's loop over the token list ends only when the list is
    exhausted.  An early exit (`break`, `return`) taken for one operand - say, the first reference that leaves the grid -
    leaves every later reference untranslated."""
    r = chk.rule(
        rid,
        "every token is visited: the formula kernel's loop over the token list is left only through the exhaustion test of its iterator - no other edge leaves the loop (no break / return inside it)",
        floor=floor,
    )
    for d in sorted(kernels):
        b = fb.mir[d]
        fl = Flow(fb, b)
        cfg = CFG(b)
        loops = {}
        for tl, h in cfg.back_edges():
            loops.setdefault(h, set()).update(cfg.natural_loop(tl, h))
        # the loop driven by an iterator over the token list parameter (argument 1)
        outer = None
        for h, body in sorted(loops.items(), key=lambda x: -len(x[1])):
            nx = [bi for bi, t in fl.calls() if bi in body and t.get("fn", "").endswith("::next") and ("arg", 1) in fl.atoms(t["args"][0], stop_calls=lambda f: f in fb.mir)]
            if nx:
                outer = (h, body, nx)
                break
        chk.touch(d)
        if not outer:
            # driven by an iterator adaptor with a closure (for_each ...): a closure cannot break out of the traversal
            adaptor = any(t.get("fn", "").split("::")[-1] in ("for_each", "map", "fold", "try_for_each") and ("arg", 1) in fl.atoms(t["args"][0], stop_calls=lambda f: f in fb.mir) for _, t in fl.calls() if t["args"])
            chk.ob(r, "%s:token-loop" % d.split("::")[-1], adaptor, where=fb.loc(d), detail="no loop over the token list; traversal by an iterator adaptor with a closure: %s" % adaptor)
            continue
        h, body, nx = outer
        bad = []
        for u in sorted(body):
            for v in cfg.succ[u]:
                if v in body or b["blocks"][v]["t"]["k"] == "unreachable":
                    continue
                t = b["blocks"][u]["t"]
                exhausted = t["k"] == "switch" and any(a[0] == "call" and a[2] in nx for a in fl.atoms(t["op"], through_calls=False))
                if not exhausted:
                    bad.append(t.get("ln"))
        chk.ob(r, "%s:token-loop" % d.split("::")[-1], not bad, where="%s:%s" % (b["file"], bad[0] if bad else b["blocks"][h]["t"].get("ln")),
               detail="exits of the token loop other than iterator exhaustion: %s" % (sorted(set(bad)) or "none"))


def rule_whole_reference(chk, fb, kernels, rid, floor=1):
    """A name that merely starts like a reference (Q1_SALES, FY23_TOTAL) is not one: the kernels rewrite a piece of an
    operand only when the parser's answer accounts for the whole piece."""
    r = chk.rule(
        rid,
        "only whole references are rewritten: wherever a formula kernel feeds a piece of a range operand to the coordinate parser, either the parser's pattern is anchored at both ends, or the parse result is accepted only after a comparison of the piece with the reference re-rendered from the result (or a whole-text predicate), in the kernel or in the wrapper it calls",
        floor=floor,
    )
    for d in sorted(kernels):
        eff, _ = effective_kernel(fb, d)
        b = fb.mir[eff]
        fl = Flow(fb, b)
        chk.touch(d)
        chk.touch(eff)
        n = 0
        for bi, t in fl.calls(lambda t: is_parser(fb, t.get("fn", ""))):
            f = t["fn"]
            how = None
            root = f
            # the raw parser behind wrappers
            anchored, pats = _regex_anchored(fb, "helper::coordinate::index_from_coordinate")
            if anchored:
                how = "the parser's pattern is anchored (%s)" % pats
            if how is None and t["args"]:
                ta = {x for x in fl.atoms(t["args"][0], stop_calls=lambda g: g in fb.mir) if x[0] in ("arg", "call")}
                how = _text_compared(fb, b, fl, bi, ta)
            if how is None and f in fb.mir and not f.endswith("index_from_coordinate"):
                wb = fb.mir[f]
                wfl = Flow(fb, wb)
                for wbi, wt in wfl.calls(lambda t: is_parser(fb, t.get("fn", ""))):
                    ta = {x for x in wfl.atoms(wt["args"][0], stop_calls=lambda g: g in fb.mir) if x[0] == "arg"} if wt["args"] else set()
                    how = _text_compared(fb, wb, wfl, wbi, ta)
                    if how:
                        how += " in %s" % f.split("::")[-1]
                        break
            chk.ob(r, "%s:whole-reference#%d" % (d.split("::")[-1], n), how is not None, where="%s:%s" % (b["file"], t.get("ln")),
                   detail="the piece is rewritten only if it is a reference as a whole: %s" % (how or "NO whole-text test - the parser's pattern is unanchored (%s), so a name like Q1_SALES is read as Q1 and replaced by it" % pats))
            n += 1


_FB = []


def STOP(fn):
    return fn.endswith("index_from_coordinate") or (bool(_FB) and is_parser(_FB[0], fn))


def effective_kernel(fb, d):
    """The body that does the per-piece work of kernel d: d itself when it calls the coordinate parser, otherwise the
    private crate function that d (or a closure of d) hands each piece to and that calls the parser.  Returns
    (body name, {argument index of d: argument index of that body}) - the map follows operands at the call site, through
    closure captures."""
    b = fb.mir[d]
    ident = {i: i for i in range(1, b["argc"] + 1)}
    if any(is_parser(fb, t.get("fn", "")) for _, t in fb.calls_in(b)):
        return d, ident
    fl_d = Flow(fb, b)
    captures = {}  # closure def -> list of operand atoms (in d) per captured slot
    for bl in b["blocks"]:
        for st in bl["s"]:
            if st["k"] == "assign" and st["rv"]["k"] == "agg" and st["rv"].get("ak") == "closure":
                captures[st["rv"]["closure"]] = [fl_d.atoms(o) for o in st["rv"].get("ops", [])]
    # the per-token work sits in a closure of d (token_list.iter_mut().for_each(|token| ...)): the closure is the body; the
    # kernel's parameters reach it as captures, numbered -(slot + 1) by arg_ids()
    for c in sorted(x for x in fb.mir if x.startswith(d + "::{closure") and x.count("{closure") == d.count("{closure") + 1):
        if any(is_parser(fb, t.get("fn", "")) for _, t in fb.calls_in(fb.mir[c])):
            amap = {}
            for slot, at in enumerate(captures.get(c, [])):
                ks = {y[1] for y in at if y[0] == "arg"}
                if len(ks) == 1:
                    amap[next(iter(ks))] = -(slot + 1)
            return c, amap
    for c in [d] + sorted(x for x in fb.mir if x.startswith(d + "::{closure")):
        cb = fb.mir[c]
        fl = fl_d if c == d else Flow(fb, cb)
        for bi, t in fl.calls():
            f = t.get("fn", "")
            fbody = fb.mir.get(f)
            if not fbody or fbody.get("vis") == "pub" or not any(is_parser(fb, x.get("fn", "")) for _, x in fb.calls_in(fbody)) or is_parser(fb, f):
                continue
            amap = {}
            for i, a in enumerate(t["args"]):
                at = fl.atoms(a)
                if c == d:
                    ks = {x[1] for x in at if x[0] == "arg"}
                else:
                    ks = set()
                    for x in at:
                        if x[0] == "field" and isinstance(x[1], str) and x[1].startswith("closure:") and x[2].isdigit() and int(x[2]) < len(captures.get(c, [])):
                            ks |= {y[1] for y in captures[c][int(x[2])] if y[0] == "arg"}
                if len(ks) == 1:
                    amap[next(iter(ks))] = i + 1
            return f, amap
    return d, ident


def _own_component(atoms, axis):
    """The value derives from this axis' component of the parsed coordinate and not from the other one."""
    own, other = ("0", "1") if axis == "col" else ("1", "0")
    return ("field", "tuple", own) in atoms and ("field", "tuple", other) not in atoms


def arg_ids(eff, atoms):
    """Parameter numbers among the atoms; in a closure body the captured slots count as parameters -(slot + 1)."""
    out = {a[1] for a in atoms if a[0] == "arg"}
    if "{closure" in eff:
        out |= {-(int(a[2]) + 1) for a in atoms if a[0] == "field" and a[1] == "closure:" + eff and str(a[2]).isdigit()}
    return out


def rule_translate(chk, fb, d):
    _FB[:] = [fb]
    kernel = d
    eff, amap = effective_kernel(fb, d)
    body = fb.mir[eff]
    cfg = CFG(body)
    fl = Flow(fb, body)
    chk.touch(d)
    chk.touch(eff)
    rid = chk.rule(
        "C09.d",
        "translation kernel: each axis component (tuple field 0/1 of the parsed coordinate) is re-assigned only under its own $ flag (field 2/3), from its own offset argument, and the shifted value is range-checked on both sides",
        floor=6,
    )
    # the coordinate parser call and its result local
    parse_calls = [(bi, t) for bi, t in fl.calls() if is_parser(fb, t.get("fn", ""))]
    if not parse_calls:
        return
    # user locals that are initialised from field 0 / 1 of the parse result (col / row component)
    comps = {}
    for l, loc in enumerate(body["locals"]):
        if not loc.get("n") or not loc.get("mut"):
            continue
        ds = fl.defs.get(l, [])
        if len(ds) < 2:
            continue
        first = ds[0]
        at = fl.atoms(l)
        # which field of the parse tuple does the initial definition come from?
        a0 = None
        if first[0] == "call":
            a0 = fl.atoms(first[3]["args"][0], stop_calls=STOP) if first[3]["args"] else set()
        elif first[0] == "rv":
            # bound by a pattern: `if let (Some(mut col), Some(mut row)) = (cell.0, cell.1)`
            a0 = set()
            for o_ in __import__("facts").rv_operands(first[3]):
                a0 |= fl.atoms(o_, stop_calls=STOP)
            if not any(a[0] == "call" and STOP(a[1]) for a in a0):
                a0 = None
        if a0 is not None:
            for axis, f in (("col", "0"), ("row", "1")):
                if ("field", "tuple", f) in a0 and not any(("field", "tuple", g) in a0 for g in "0123" if g != f):
                    comps[axis] = l
    for axis, own_flag, other_flag, own_arg, other_arg in (("col", "2", "3", amap.get(2, -2), amap.get(3, -3)), ("row", "3", "2", amap.get(3, -3), amap.get(2, -2))):
        l = comps.get(axis)
        if l is None:
            chk.ob(rid, "%s:%s:component" % (d, axis), False, where=fb.loc(d), detail="no mutable local initialised from field of the parsed coordinate found for axis %s" % axis)
            continue
        reassigns = [x for x in fl.defs[l][1:] if x[0] == "rv"]
        for n, (kind, bi, si, rv, lhs) in enumerate(reassigns):
            ln = body["blocks"][bi]["s"][si]["ln"]
            deps = cfg.control_deps_transitive(bi)
            flag_atoms = set()
            cmp_consts = []
            for x in deps:
                t = body["blocks"][x]["t"]
                at = fl.atoms(t["op"], through_calls=True, stop_calls=STOP)
                flag_atoms |= {a for a in at if a[0] == "field" and a[1] == "tuple"}
                # comparisons feeding this switch
                if "p" in t["op"]:
                    # the value being assigned: which arithmetic result does it come from?
                    src_calls = {a for o_ in __import__("facts").rv_operands(rv) for a in fl.atoms(o_, stop_calls=STOP) if a[0] == "call"}
                    for dd in fl.defs.get(t["op"]["p"]["l"], []):
                        if dd[0] == "rv" and dd[3]["k"] == "bin" and dd[3]["op"] in ("Lt", "Le", "Gt", "Ge"):
                            var = dd[3]["a"] if "p" in dd[3]["a"] else dd[3]["b"]
                            var_at = fl.atoms(var, stop_calls=STOP)
                            var_calls = {a for a in var_at if a[0] == "call"}
                            # only comparisons of THIS shifted value count (not the other axis' range check)
                            if (var_calls & src_calls - {a for a in src_calls if STOP(a[1])}) or _own_component(var_at, axis):
                                cmp_consts.append((dd[3]["op"], dd[3]["a"].get("i"), dd[3]["b"].get("i"), deps[x], t))
                    # ... or a membership test on a constant range: !(1..=16384).contains(&shifted)
                    for a in fl.atoms(t["op"], stop_calls=STOP):
                        if a[0] == "call" and a[1].split("::")[-1] == "contains":
                            ct = body["blocks"][a[2]]["t"]
                            if "Range" not in ct.get("impl_self", "") or len(ct["args"]) < 2:
                                continue
                            item_at = fl.atoms(ct["args"][1], stop_calls=STOP)
                            item_calls = {y for y in item_at if y[0] == "call"}
                            if not (item_calls & src_calls - {y for y in src_calls if STOP(y[1])}) and not _own_component(item_at, axis):
                                continue
                            cs = sorted(y[1] for y in fl.atoms(ct["args"][0]) if y[0] == "const" and isinstance(y[1], int))
                            if len(cs) >= 2:
                                lo, hi = cs[0], cs[-1]
                                if not ct.get("impl_self", "").startswith("std::ops::RangeInclusive"):
                                    hi -= 1  # half-open
                                cmp_consts.append(("Lt", None, lo, deps[x], t))
                                cmp_consts.append(("Gt", None, hi, deps[x], t))
            own = ("field", "tuple", own_flag) in flag_atoms
            crossed = ("field", "tuple", other_flag) in flag_atoms and not own
            chk.ob(
                rid,
                "%s:%s:guarded-by-own-lock#%d" % (d, axis, n),
                own and not crossed,
                where="%s:%s" % (body["file"], ln),
                detail="shift of the %s component is control-dependent on lock flags %s (needs field %s)" % (axis, sorted(a[2] for a in flag_atoms), own_flag),
            )
            src = set()
            for o_ in __import__("facts").rv_operands(rv):
                src |= fl.atoms(o_, stop_calls=STOP)
            args = arg_ids(eff, src)
            if "{closure" in eff:
                args -= {1, 2}  # the closure's own environment and item parameter
            chk.ob(
                rid,
                "%s:%s:own-offset#%d" % (d, axis, n),
                own_arg in args and other_arg not in args,
                where="%s:%s" % (body["file"], ln),
                detail="shifted %s value derives from argument(s) %s (needs argument %d only)" % (axis, sorted(args), own_arg),
            )
            lower = any(op in ("Lt", "Le") and b is not None and b <= 1 for op, a, b, _, _ in cmp_consts) or any(
                op in ("Gt", "Ge") and a is not None and a <= 1 for op, a, b, _, _ in cmp_consts
            )
            upper = any(op in ("Gt", "Ge") and b is not None and b >= 16384 for op, a, b, _, _ in cmp_consts) or any(
                op in ("Lt", "Le") and a is not None and a >= 16384 for op, a, b, _, _ in cmp_consts
            )
            chk.ob(
                rid,
                "%s:%s:lower-bound#%d" % (d, axis, n),
                lower,
                where="%s:%s" % (body["file"], ln),
                detail="shift is guarded by a comparison with 1 (left/top edge of the grid): %s" % lower,
            )
            chk.ob(
                rid,
                "%s:%s:upper-bound#%d" % (d, axis, n),
                upper,
                where="%s:%s" % (body["file"], ln),
                detail="shift is guarded by a comparison with the grid maximum (16384 / 1048576): %s" % upper,
            )
    # sibling contradiction: unwrap of field 1 must be guarded by is_some on field 1 (C08.c one-sided check)
    one_sided(chk, fb, eff, "C09.d", name=d)


def one_sided(chk, fb, d, rid_prefix, name=None):
    """Every `Option::unwrap` whose receiver derives from field f of the parsed coordinate must be
    control-dependent on an `is_some` test of the same field (Engler-style one-sided check)."""
    body = fb.mir[d]
    cfg = CFG(body)
    fl = Flow(fb, body)
    rid = chk.rule(
        rid_prefix + ".unwrap",
        "one-sided check: each unwrap() of an optional component (col/row) of the parsed coordinate is guarded by is_some() of that same component",
        floor=0,  # a kernel that binds the components by pattern has no unwrap to guard
    )
    for bi, t in fl.calls(lambda t: t.get("fn") == "std::option::Option::<T>::unwrap"):
        a = fl.atoms(t["args"][0], through_calls=False)
        fields = sorted(x[2] for x in a if x[0] == "field" and x[1] == "tuple")
        if len(fields) != 1 or fields[0] not in ("0", "1"):
            continue
        if not any(x[0] == "call" and is_parser(fb, x[1]) for x in fl.atoms(t["args"][0])):
            continue
        f = fields[0]
        guarded = False
        for x in cfg.control_deps_transitive(bi):
            sw = body["blocks"][x]["t"]
            at = fl.atoms(sw["op"])
            TESTS = ("std::option::Option::<T>::is_some", "std::option::Option::<T>::is_none")
            if ("field", "tuple", f) in at and any(c[0] == "call" and c[1] in TESTS for c in at):
                # is_some / is_none (early exit) applied to that field specifically
                for c in at:
                    if c[0] == "call" and c[1] in TESTS:
                        ct = body["blocks"][c[2]]["t"]
                        ca = fl.atoms(ct["args"][0], through_calls=False)
                        if ("field", "tuple", f) in ca:
                            guarded = True
        chk.ob(
            rid,
            "%s:unwrap(field %s)" % (name or d, f),
            guarded,
            where="%s:%s" % (body["file"], t["ln"]),
            detail="unwrap of component %s of the parsed coordinate; guarded by is_some of that component: %s" % (f, guarded),
        )


def rule_set_coordinate(chk, fb):
    rid = chk.rule(
        "C09.d.caller",
        "Cell::set_coordinate passes (new - old) per axis, column difference first, to the translation kernel",
        floor=2,
    )
    tr = find_translate(fb)
    # private helpers that merely forward their parameters to the kernel: helper -> {kernel position: helper parameter}
    fwd = {}
    for h_, hb in fb.mir.items():
        if h_ in tr or hb["kind"] not in ("Fn", "AssocFn"):
            continue
        hfl = None
        for _, ht in fb.calls_in(hb):
            if ht.get("fn") in tr and len(ht["args"]) >= 3:
                hfl = hfl or Flow(fb, hb)
                m = {}
                for pos in (1, 2):
                    ps = {a[1] for a in hfl.atoms(ht["args"][pos]) if a[0] == "arg"}
                    if len(ps) == 1:
                        m[pos] = next(iter(ps))
                if len(m) == 2:
                    fwd[h_] = m
    CELL = "structs::cell::Cell"

    def sources(m, fl, op, depth=0):
        """(fields of the requested CellCoordinates, getter names) the operand derives from, following parameters of a
        private Cell helper back to the call sites in Cell"""
        at = fl.atoms(op)
        fields = {a[2] for a in at if a[0] == "field" and a[1].endswith("CellCoordinates")}
        getters = {a[1].split("::")[-1] for a in at if a[0] == "call"}
        if depth < 2:
            for a in at:
                if a[0] == "arg" and (a[1] > 1 or fb.mir[m]["locals"][1].get("n") != "self"):
                    for c, cbi in sorted(fb.callers.get(m, ())):
                        cb = fb.mir.get(c)
                        if cb and cb.get("self_ty") == CELL:
                            ct = cb["blocks"][cbi]["t"]
                            if a[1] - 1 < len(ct["args"]):
                                f2, g2 = sources(c, Flow(fb, cb), ct["args"][a[1] - 1], depth + 1)
                                fields |= f2
                                getters |= g2
        return fields, getters

    for d, b in sorted(fb.mir.items()):
        if b.get("self_ty") != CELL or "::{closure" in d:
            continue
        fl = Flow(fb, b)
        for bi, t in fl.calls(lambda t: t.get("fn") in tr or t.get("fn") in fwd):
            chk.touch(d)
            for pos, (newf, oldg) in ((1, ("col", "get_col_num")), (2, ("row", "get_row_num"))):
                apos = pos if t["fn"] in tr else fwd[t["fn"]][pos] - 1
                if apos >= len(t["args"]):
                    continue
                fields, getters = sources(d, fl, t["args"][apos])
                other = {"col": "row", "row": "col"}[newf]
                ok = newf in fields and other not in fields and oldg in getters and ("get_%s_num" % other) not in getters
                chk.ob(
                    rid,
                    "structs::cell::Cell::set_coordinate:arg%d" % pos,
                    ok,
                    where="%s:%s" % (b["file"], t["ln"]),
                    detail="offset argument %d (in %s) derives from the requested coordinate's fields %s and old getters %s" % (pos, d.split("::")[-1], sorted(fields), sorted(g for g in getters if g.startswith("get_"))),
                )


def run(chk, fb, tier):
    _FB[:] = [fb]
    toks = find_tokenizer(fb)
    chk.rule("C09.anchor", "anchors located by role (tokenizer, translation kernel)", floor=2)
    for d in toks:
        chk.ob("C09.anchor", "tokenizer:" + d, True, where=fb.loc(d), nontrivial=False)
    trs = find_translate(fb)
    rule_whole_reference(chk, fb, trs, "C09.h")
    rule_every_token(chk, fb, trs, "C09.k")
    rule_error_table(chk, fb)
    rule_set_then_get(chk, fb)
    for d in trs:
        chk.ob("C09.anchor", "translate:" + d, True, where=fb.loc(d), nontrivial=False)
    for d in toks:
        rule_progress(chk, fb, d)
        rule_modes(chk, fb, d)
        rule_bounds(chk, fb, d)
    for d in trs:
        rule_translate(chk, fb, d)
    rule_set_coordinate(chk, fb)
    chk.assume("String::chars().nth(i) is Some exactly when i < chars().count()")
    chk.note("not decided: identity of render(parse(f)) for all formulas (value-level); see DESIGN.md C09")
