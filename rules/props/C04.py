"""C04 — re-saving is stable. Clauses a–c (DESIGN.md section 4)."""
import json
import os

import channels
import hirq
import symmetry
from cfg import CFG
from mirq import Flow
from props import C01

VERIF = os.path.dirname(os.path.dirname(os.path.dirname(os.path.abspath(__file__))))

# attributes a reader consumes that are deliberately not written back, with the reason
READ_ONLY_OK = {
    ("structs::cell::Cell", "cm"): "cell metadata index: the metadata part itself is not modelled, writing the index would dangle (commented NOT SUPPORT in the source)",
    ("structs::cell::Cell", "xml:space"): "consumed to switch whitespace trimming while reading; the writer of <t> decides it again from the text (C02.h)",
    ("structs::bold::Bold", "val"): "boolean element: val=false is represented by omitting the element",
    ("structs::italic::Italic", "val"): "boolean element: val=false is represented by omitting the element",
    ("structs::strike::Strike", "val"): "boolean element: val=false is represented by omitting the element",
}


def anchor_files(pids):
    files = set()
    with open(os.path.join(VERIF, "properties.jsonl")) as f:
        for l in f:
            p = json.loads(l)
            if p["id"] in pids:
                files |= set(p["anchors"]["files"])
    return files


def writer_reachable(fb):
    roots = [d for d in fb.mir if d == "writer::xlsx::make_buffer"]
    return fb.reachable_from(roots)


def reader_reachable(fb):
    roots = [d for d in fb.mir if d.startswith("reader::xlsx::read") or d == "reader::xlsx::raw_to_deserialize_by_worksheet"]
    return fb.reachable_from(roots)


_tables = {}


def tables(fb, adt):
    if adt not in _tables:
        _tables[adt] = symmetry.struct_tables(fb, adt)
    return _tables[adt]


def writer_closure(fb, adt, seen=None, depth=0):
    """Attribute names written by adt's writer or by the writers it calls (children are written by their own write_to)."""
    seen = seen if seen is not None else set()
    if adt in seen or depth > 6:
        return set()
    seen.add(adt)
    t = tables(fb, adt)
    out = set(t["written_attrs"])
    for d in t["writer"]:
        for c in hirq.called_defs(fb.hir[d]["body"]):
            if c and c.split("::")[-1].startswith("write_to"):
                h = fb.hir.get(c)
                if h and h.get("self_ty") and h["self_ty"] != adt and h["self_ty"] in fb.adts:
                    out |= writer_closure(fb, h["self_ty"], seen, depth + 1)
    return out


def rule_symmetry(chk, fb, tier, rid, files=None, floor=30, label="C04"):
    rb = chk.rule(
        rid,
        "reader/writer attribute symmetry: every attribute a struct's reader stores in the model is emitted by that struct's writer (or the child writers it calls) under the same name — otherwise it is lost on the first re-save",
        floor=floor,
    )
    wreach = writer_reachable(fb)
    rreach = reader_reachable(fb)
    n = 0
    for adt in symmetry.both_sided(fb):
        f = fb.adts[adt]["file"]
        t = tables(fb, adt)
        live = any(d in wreach for d in t["writer"]) and any(d in rreach for d in t["reader"])
        if not live:
            continue
        if files is not None and f not in files:
            continue
        wc = writer_closure(fb, adt)
        for a in sorted(t["read_attrs"]):
            if a.startswith("xmlns"):
                continue
            ok = a in wc or (adt, a) in READ_ONLY_OK
            for d in t["reader"]:
                chk.touch(d)
            chk.ob(rb, "%s@%s" % (adt.split("::")[-1], a), ok, where=f, detail="attribute `%s` is read by %s and %s" % (a, adt.split("::")[-1], "written back" if a in wc else ("deliberately not written: " + READ_ONLY_OK[(adt, a)] if (adt, a) in READ_ONLY_OK else "NEVER written by its writer")),
                   nontrivial=a in wc)
        n += 1
    chk.note("%s: %d structs with live reader and writer compared" % (label, n))


SEARCHES = ("position", "rposition", "find", "find_map", "any", "all")


def scan_scopes(fb, d, b, fl, cfg):
    """Where a function searches a collection: (scan points, loop blocks, calls made while scanning).
    A scan is a loop of the function or an iterator search (position / find / any ...) with its closure."""
    loops = {}
    for tail, head in cfg.back_edges():
        loops.setdefault(head, set()).update(cfg.natural_loop(tail, head))
    loop_blocks = set().union(*loops.values()) if loops else set()
    points = list(loops)
    calls = [t for bi, t in fl.calls() if bi in loop_blocks]
    for bi, t in fl.calls():
        f = t.get("fn", "")
        if f.split("::")[-1] in SEARCHES and ("Iterator" in f or "iter::" in f or "slice::" in f):
            points.append(bi)
            for a in t["args"][1:]:
                for at in fl.atoms(a):
                    if at[0] == "cfn" and at[1] in fb.mir:
                        for cd in [at[1]] + [c for c in fb.mir if c.startswith(at[1] + "::{closure")]:
                            calls.extend(tt for _, tt in fb.calls_in(fb.mir[cd]))
    return points, loop_blocks, calls


def rule_reuse(chk, fb):
    rc = chk.rule(
        "C04.c",
        "interning reuses before appending: in every set_style of the style tables the append is outside the scan (a loop or an iterator search), is reached only after the scan (the scan dominates it) and the scan can return the found index without appending",
        floor=5,
    )
    for d, b in sorted(fb.mir.items()):
        if d.split("::")[-1] != "set_style" or b["kind"] != "AssocFn" or not b.get("self_ty", "").startswith("structs::"):
            continue
        cfg = CFG(b)
        fl = Flow(fb, b)
        points, all_loop, _ = scan_scopes(fb, d, b, fl, cfg)
        if not points:
            continue
        # appends: push on a vec field of self, or a crate setter of self that pushes
        adt = b["self_ty"]
        appends = []
        for bi, t in fl.calls():
            f = t.get("fn", "")
            nm = f.split("::")[-1]
            is_push = nm == "push" and ("Vec" in f or "ThinVec" in f)
            is_setter = f in fb.mir and fb.mir[f].get("self_ty") == adt and any(tt.get("fn", "").split("::")[-1] == "push" for _, tt in fb.calls_in(fb.mir[f]))
            is_insert = nm == "insert" and "HashMap" in f
            if (is_push or is_setter or is_insert) and t["args"] and any(a[0] == "arg" and a[1] == 1 for a in fl.atoms(t["args"][0], through_calls=False) | fl.atoms(t["args"][0])):
                appends.append((bi, nm))
        if not appends:
            continue
        chk.touch(d)
        app_blocks = {bi for bi, _ in appends}
        for n, (bi, nm) in enumerate(appends):
            in_loop = bi in all_loop
            dominated = any(cfg.dominates(h, bi) and h != bi for h in points)
            # the found index can be returned: from some scan point a return is reachable without passing an append
            ret_found = any(any(e in cfg.reachable(h, avoid=app_blocks) for e in cfg.exits) for h in points)
            ok = (not in_loop) and dominated and ret_found
            chk.ob(rc, "%s::set_style:append#%d" % (adt.split("::")[-1], n), ok, where="%s:%s" % (b["file"], b["blocks"][bi]["t"]["ln"]),
                   detail="append (%s) inside the scan loop: %s; the scan dominates it: %s; the scan can return a found index without appending: %s" % (nm, in_loop, dominated, ret_found))


def _returns(b, cfg, s, loop):
    """Does block s (outside the loop) lead to a return without passing an append? (early return of the found id)"""
    r = cfg.reachable(s)
    return any(e in r for e in cfg.exits)


def rule_range_render(chk, fb, rid="C04.f"):
    """A range is written back with its end whenever it has one: `C:C`, `2:3` (an end column or an end row only) are
    ranges too.  The test in front of the end part of Range::get_range must be true as soon as either end component is
    present."""
    import itertools
    from props.C08 import bool_formula, eval_formula, atoms_of

    r = chk.rule(
        rid,
        "a range keeps its end: in the method that renders a Range, the condition under which the end corner is appended, as a boolean function of the presence tests of the end components, is `end column present OR end row present`",
        floor=1,
    )
    d = "structs::range::Range::get_range"
    h = fb.hir.get(d)
    if not h:
        chk.ob(r, "anchor", False, detail="Range::get_range not found")
        return
    chk.touch(d)
    target = None
    for x in hirq.walk(h["body"]):
        if x.get("k") == "if" and any(y.get("k") == "mcall" and y.get("name") == "get_coordinate_end" for y in hirq.walk(x["then"])):
            target = x
            break
    if target is None:
        chk.ob(r, "Range::get_range", True, where=fb.loc(d), nontrivial=False, detail="NOT DECIDED: no `if` around the end corner (another shape)")
        return

    def atom(n):
        n = hirq.strip(n)
        if n.get("k") == "mcall" and n.get("name") in ("is_some", "is_none"):
            rc = hirq.strip(n["recv"])
            if rc.get("k") == "field" and rc.get("name") in ("end_col", "end_row"):
                return (n["name"], rc["name"])
        return ("?", n.get("ln"))

    f = bool_formula(target["cond"], atom)
    acc = set()
    atoms_of(f, acc)
    if any(a[0] == "?" for a in acc):
        chk.ob(r, "Range::get_range", True, where=fb.loc(d), nontrivial=False, detail="NOT DECIDED: the condition is not a boolean combination of presence tests of the end components")
        return
    bad = []
    for ec, er in itertools.product((False, True), repeat=2):
        env = {a: ((ec if a[1] == "end_col" else er) if a[0] == "is_some" else not (ec if a[1] == "end_col" else er)) for a in acc}
        if bool(eval_formula(f, env)) != (ec or er):
            bad.append((ec, er))
    chk.ob(r, "Range::get_range", not bad, where="%s:%s" % (h["file"], target.get("ln")), detail="end appended iff an end component is present: %s" % ("yes" if not bad else "NO - differs for (end column present, end row present) = %s" % bad))


def run(chk, fb, tier):
    # C04.a exactly-one escape/unescape per channel
    C01.rule_escape(chk, fb)  # text channel (rule id C01.c)
    channels.rule_attr_unescape(chk, fb, "C04.a.attr-read")
    channels.rule_attr_escape(chk, fb, "C04.a.attr-write")
    rule_symmetry(chk, fb, tier, "C04.b", files=None, floor=250)
    rule_reuse(chk, fb)
    from props import C06

    C06.rule_variants(chk, fb, "C04.b.variants")
    C06.rule_empty_arms(chk, fb, "C04.b.empty")
    symmetry.rule_enum_tables(chk, fb, "C04.b.enums")
    symmetry.rule_omitted_defaults(chk, fb, "C04.b.defaults")
    symmetry.rule_attr_fields(chk, fb, "C04.b.fields")
    rule_range_render(chk, fb)
    symmetry.rule_parsed_as_stored(chk, fb, "C04.b.parsed")
    symmetry.rule_empty_flag_attrs(chk, fb, "C04.b.emptyattrs")
    symmetry.rule_attr_guards(chk, fb, "C04.b.guards")
    symmetry.rule_empty_covers_children(chk, fb, "C04.b.children")
    from props import C02

    C02.rule_quote_inverse(chk, fb, "C04.a.quote")
    C02.rule_unordered_once(chk, fb, "C04.d")
    chk.assume("quick-xml escape()/unescape() are inverse on the five predefined entities")
    chk.note("not decided: fixed-point equality of generations (value-level); unknown parts pass-through")
