"""C20 — CSV export is a faithful rectangular rendering of the active sheet. Clauses a–e (typed HIR)."""
import importlib.util
import os

import hirq

_spec = importlib.util.spec_from_file_location("encodings", os.path.join(os.path.dirname(__file__), "..", "..", "spec", "encodings.py"))
ENC = importlib.util.module_from_spec(_spec)
_spec.loader.exec_module(ENC)


def find_writer(fb):
    """The csv writer: the fn of writer::csv taking (&Spreadsheet, &mut W, &CsvWriterOption)."""
    for d, h in fb.hir.items():
        if d.startswith("writer::csv::") and len(h["params"]) == 3 and any("CsvWriterOption" in fb.ty(p.get("t", 0)) for p in h["params"] if p.get("k") == "bind"):
            if any(hirq.for_loops(h["body"])):
                return d
    return None


def affine(n, var_lid):
    """expr == var + c  -> c ; None otherwise"""
    n = hirq.strip(n)
    if n.get("k") == "path" and n.get("lid") == var_lid:
        return 0
    if n.get("k") == "bin" and n.get("op") in ("+", "-"):
        l, r = hirq.strip(n["l"]), hirq.strip(n["r"])
        if l.get("k") == "path" and l.get("lid") == var_lid and r.get("k") == "lit" and r.get("lt") == "int":
            return r["v"] if n["op"] == "+" else -r["v"]
        if n["op"] == "+" and r.get("k") == "path" and r.get("lid") == var_lid and l.get("k") == "lit":
            return l["v"]
    return None


def range_of(it):
    """(start literal, end local lid, inclusive) of a Range / RangeInclusive expression."""
    it = hirq.strip(it)
    if it.get("k") == "struct" and it.get("def", "").startswith("std::ops::Range"):
        f = {x["name"]: hirq.strip(x["e"]) for x in it["fields"]}
        s, e = f.get("start"), f.get("end")
        if s is not None and e is not None and s.get("k") == "lit":
            return s.get("v"), e.get("lid"), False, e
    if it.get("k") == "call" and "RangeInclusive" in it.get("def", "") and len(it.get("args", [])) == 2:
        s, e = hirq.strip(it["args"][0]), hirq.strip(it["args"][1])
        if s.get("k") == "lit":
            return s.get("v"), e.get("lid"), True, e
    return None


def run(chk, fb, tier):
    d = find_writer(fb)
    chk.rule("C20.anchor", "the csv writer located by role", floor=1)
    chk.ob("C20.anchor", "writer:%s" % d, d is not None, where=fb.loc(d) if d else "", nontrivial=False)
    if not d:
        return
    h = fb.hir[d]
    chk.touch(d)
    body = h["body"]
    where = lambda n: "%s:%s" % (h["file"], n.get("ln"))
    ra = chk.rule("C20.a", "rectangle: the loop nest visits exactly [1, highest row] x [1, highest column] of the active sheet — bounds taken from the right component of the extent, cell looked up as (column, row), rows outermost", floor=6)
    rb = chk.rule("C20.b", "separators: fields are joined by ',' and every record is terminated once by CR LF", floor=3)
    rc = chk.rule("C20.c", "options honoured: trimming (both sides, str::trim) is guarded by its option and precedes wrapping; wrapping puts the option's character on both sides and is guarded by its option", floor=4)
    rd = chk.rule("C20.d", "quoting: a value is made safe before it is emitted — the wrap character inside the value is doubled before wrapping, and an unwrapped value containing the delimiter or a line break is quoted", floor=2)
    re_ = chk.rule("C20.e", "encoding dispatch: every CsvEncodeValues variant selects the encoding_rs encoding of the same name; only UTF-8 falls through to the identity encoding", floor=10)

    # sheet and extent
    sheet_lid = None
    ext = None
    for x in hirq.walk(body):
        if x.get("k") == "let" and x.get("init"):
            init = hirq.strip(x["init"])
            if init.get("k") == "mcall" and init.get("def", "").endswith("Spreadsheet::get_active_sheet"):
                sheet_lid = x["pat"].get("lid")
            if init.get("k") == "mcall" and init.get("def", "").endswith("get_highest_column_and_row") and x["pat"].get("k") == "tuple":
                recv = hirq.strip(init["recv"])
                ext = (x["pat"]["subs"][0].get("lid"), x["pat"]["subs"][1].get("lid"), recv.get("lid"))
    chk.ob(ra, "active-sheet", sheet_lid is not None and ext is not None and ext[2] == sheet_lid, where=fb.loc(d), detail="extent is taken from the sheet returned by get_active_sheet(): %s" % (sheet_lid is not None and ext is not None and ext[2] == sheet_lid))
    if not ext:
        return
    max_col, max_row = ext[0], ext[1]
    loops = list(hirq.for_loops(body))
    # outer loops = those not contained in another loop body
    outer = [l for l in loops if not any(o is not l and hirq.contains(o[3], l[0]) for o in loops)]
    if len(outer) != 1:
        chk.ob(ra, "loop-nest", False, where=fb.loc(d), detail="expected one outer loop, found %d" % len(outer))
        return
    o = outer[0]
    inner = [l for l in loops if l is not o and hirq.contains(o[3], l[0])]
    if len(inner) != 1:
        chk.ob(ra, "loop-nest", False, where=where(o[0]), detail="expected one inner loop, found %d" % len(inner))
        return
    i = inner[0]
    ro, ri = range_of(o[1]), range_of(i[1])
    ovar, ivar = o[2].get("lid"), i[2].get("lid")
    # the lookup
    gets = [c for c in hirq.calls(i[3]) if c.get("k") == "mcall" and c.get("name", "").startswith("get_cell") and hirq.strip(c["recv"]).get("lid") == sheet_lid]
    if not gets or ro is None or ri is None:
        chk.ob(ra, "loop-nest", False, where=where(o[0]), detail="could not identify ranges / cell lookup")
        return
    g = gets[0]
    arg = hirq.strip(g["args"][0])
    if arg.get("k") != "tup" or len(arg["es"]) != 2:
        chk.ob(ra, "lookup", False, where=where(g), detail="cell lookup argument is not a (column, row) tuple")
        return
    c_col_i, c_col_o = affine(arg["es"][0], ivar), affine(arg["es"][0], ovar)
    c_row_i, c_row_o = affine(arg["es"][1], ivar), affine(arg["es"][1], ovar)
    # which loop drives which component
    col_loop = ("inner", ri, c_col_i) if c_col_i is not None else (("outer", ro, c_col_o) if c_col_o is not None else None)
    row_loop = ("outer", ro, c_row_o) if c_row_o is not None else (("inner", ri, c_row_i) if c_row_i is not None else None)
    chk.ob(ra, "lookup-components", col_loop is not None and row_loop is not None and col_loop[0] != row_loop[0], where=where(g), detail="column component driven by the %s loop, row component by the %s loop" % (col_loop[0] if col_loop else "?", row_loop[0] if row_loop else "?"))
    if not col_loop or not row_loop:
        return
    chk.ob(ra, "rows-outermost", row_loop[0] == "outer", where=where(o[0]), detail="one record per row requires the row loop outermost: row loop is %s" % row_loop[0])
    for axis, (which, rg, c), want in (("column", col_loop, max_col), ("row", row_loop, max_row)):
        start, end_lid, incl, end_expr = rg
        first = start + c
        exact_end = end_lid == want and ((not incl and c == 1) or (incl and c == 0))
        chk.ob(ra, "%s-first" % axis, first == 1, where=where(o[0] if which == "outer" else i[0]), detail="%s indexes start at %d (must be 1)" % (axis, first))
        chk.ob(ra, "%s-last" % axis, exact_end, where=where(o[0] if which == "outer" else i[0]),
               detail="%s indexes end at <%s>%s%+d%s; must be exactly the highest %s" % (axis, "highest " + ("column" if end_lid == max_col else "row" if end_lid == max_row else "?"), "" if incl else "-1", c, "", axis))
    # C20.b separators
    joins = [c for c in hirq.calls(o[3]) if c.get("k") == "mcall" and c.get("name") == "join"]
    ok = bool(joins) and all(hirq.lit_value(j["args"][0]) == "," for j in joins) and not any(hirq.contains(i[3], j) for j in joins)
    chk.ob(rb, "field-joiner", ok, where=where(joins[0]) if joins else fb.loc(d), detail="fields joined by %r once per record" % ([hirq.lit_value(j["args"][0]) for j in joins]))
    # record terminator: a write of the literal "\r\n" in the outer body, outside the inner loop
    terms = []
    for x in hirq.walk(o[3]):
        pieces = hirq.format_node(x) if x.get("mac") and x["mac"][0] in ("write", "writeln", "format") else None
        if pieces and all(k == "lit" for k, _ in pieces):
            txt = "".join(v for _, v in pieces)
            terms.append((txt, x))
    crlf = [t for t in terms if t[0] == "\r\n"]
    ok = len(crlf) == 1 and not hirq.contains(i[3], crlf[0][1])
    chk.ob(rb, "record-terminator", ok, where=where(crlf[0][1]) if crlf else where(o[0]), detail="literal pieces written per record: %r" % [t[0] for t in terms])
    # the record write uses the joined row
    chk.ob(rb, "record-content", bool(joins), where=where(o[0]), detail="the record is the join of the row's fields")
    # C20.c options
    # the per-field work may sit in a private helper of the csv module: its body is part of the scope
    helper_bodies = [fb.hir[c]["body"] for c in hirq.called_defs(i[3]) if c.startswith("writer::csv::") and c in fb.hir and c != d]
    if helper_bodies:
        i = (i[0], i[1], i[2], {"k": "block", "ln": i[3].get("ln"), "stmts": [{"k": "semi", "e": i[3]}] + [{"k": "semi", "e": hb} for hb in helper_bodies], "expr": None})
    lets = {y["pat"].get("lid"): hirq.strip(y["init"]) for y in list(hirq.walk(body)) + [z for hb in helper_bodies for z in hirq.walk(hb)] if y.get("k") == "let" and y.get("init") and y["pat"].get("k") == "bind"}

    def from_getter(n, getter, depth=0):
        """n mentions a call of the option getter, directly or through immutable local bindings."""
        for y in hirq.walk(n):
            if y.get("k") == "mcall" and (y.get("def") or "").endswith(getter):
                return True
            if y.get("k") == "path" and y.get("lid") in lets and depth < 4 and from_getter(lets[y["lid"]], getter, depth + 1):
                return True
        return False

    ifs = [x for x in hirq.walk(i[3]) if x.get("k") == "if"]
    trim_if = wrap_if = None
    for x in ifs:
        if trim_if is None and from_getter(x["cond"], "get_do_trim"):
            trim_if = x
        if wrap_if is None and from_getter(x["cond"], "get_wrap_with_char"):
            wrap_if = x
    ok = trim_if is not None and any(c == "core::str::<impl str>::trim" or c.endswith("str>::trim") for c in hirq.called_defs(trim_if["then"]))
    chk.ob(rc, "trim-guarded", ok, where=where(trim_if) if trim_if else where(i[0]), detail="trim option guards a call to str::trim (both sides): %s; callees %s" % (ok, [c.split("::")[-1] for c in hirq.called_defs(trim_if["then"])] if trim_if else []))
    wrap_ok = False
    tmpl = None
    if wrap_if is not None:
        for x in hirq.walk(wrap_if["then"]):
            if x.get("mac") and x["mac"][0] == "format":
                pieces = hirq.format_node(x)
                if pieces:
                    tmpl = pieces
                    args = [v for k, v in pieces if k == "arg"]
                    lits = [v for k, v in pieces if k == "lit"]
                    if len(args) == 3 and not lits:
                        a0, a1, a2 = (hirq.strip(a) for a in args)
                        is_wrap = lambda a: from_getter(a, "get_wrap_with_char")
                        wrap_ok = is_wrap(a0) and is_wrap(a2) and not is_wrap(a1)
    if wrap_if is not None and not wrap_ok:
        # push style: s.push_str(wrap); s.push_str(value); s.push_str(wrap) on one String
        by_recv = {}
        for x in hirq.walk(wrap_if["then"]):
            if x.get("k") == "mcall" and x.get("name") in ("push_str", "push") and x.get("args"):
                rc_ = hirq.strip(x["recv"])
                if rc_.get("k") == "path":
                    by_recv.setdefault(rc_.get("lid"), []).append(hirq.strip(x["args"][0]))
        def is_wrap(a, depth=0):
            """the wrap character itself: the getter call, or a local bound directly to it"""
            a = hirq.strip(a)
            while a.get("k") == "ref":
                a = hirq.strip(a["e"])
            if a.get("k") == "mcall" and (a.get("def") or "").endswith("get_wrap_with_char"):
                return True
            return a.get("k") == "path" and a.get("lid") in lets and depth < 3 and is_wrap(lets[a["lid"]], depth + 1)

        for lid_, parts in by_recv.items():
            if len(parts) == 3 and is_wrap(parts[0]) and is_wrap(parts[2]) and not is_wrap(parts[1]):
                wrap_ok = True
    chk.ob(rc, "wrap-both-sides", wrap_ok, where=where(wrap_if) if wrap_if else where(i[0]), detail="wrapped value is <wrap><value><wrap>: %s" % wrap_ok)
    cond_ok = False
    if wrap_if is not None:
        t = hirq.eq_literal_test(wrap_if["cond"])
        cond_ok = t is not None and t[1] == "" and t[2]
    chk.ob(rc, "wrap-guarded", cond_ok, where=where(wrap_if) if wrap_if else where(i[0]), detail="wrapping is applied exactly when the wrap option is not empty: %s" % cond_ok)
    order_ok = trim_if is not None and wrap_if is not None and trim_if["ln"] < wrap_if["ln"] and not hirq.contains(wrap_if, trim_if) and not hirq.contains(trim_if, wrap_if)
    # order by position in the enclosing statement list
    if trim_if is not None and wrap_if is not None:
        seq = [x for x in hirq.walk(i[3]) if x is trim_if or x is wrap_if]
        order_ok = seq and seq[0] is trim_if
    chk.ob(rc, "trim-before-wrap", bool(order_ok), where=where(i[0]), detail="trimming happens before wrapping: %s" % bool(order_ok))
    # C20.d quoting
    doubled = False
    if wrap_if is not None:
        for c in hirq.calls(wrap_if["then"]):
            if c.get("k") == "mcall" and c.get("name") in ("replace", "replacen") and len(c.get("args", [])) >= 2:
                a0 = hirq.strip(c["args"][0])
                from_wrap = lambda n: from_getter(n, "get_wrap_with_char")
                a1 = c["args"][1]
                a1s = hirq.strip(a1)
                if a1s.get("k") == "path" and a1s.get("lid") in lets:
                    a1 = lets[a1s["lid"]]
                twice = any(y.get("k") == "mcall" and y.get("name") == "repeat" and hirq.lit_value(y["args"][0]) == 2 for y in hirq.walk(a1)) or sum(
                    1 for y in hirq.walk(a1) if (y.get("k") == "mcall" and y.get("def", "").endswith("get_wrap_with_char")) or (y.get("k") == "path" and y.get("lid") in lets and from_wrap(lets[y["lid"]]))
                ) >= 2
                if from_wrap(a0) and from_wrap(c["args"][1]) and twice:
                    doubled = True
    chk.ob(rd, "wrap-char-doubled", doubled, where=where(wrap_if) if wrap_if else where(i[0]), detail="the wrap character occurring inside a value is doubled before wrapping: %s" % doubled)
    auto = False
    for x in hirq.walk(i[3]):
        if x.get("k") in ("mcall",) and x.get("name") in ("contains", "find") and any(hirq.lit_value(a) in (",", "\n", "\r", "\r\n") for a in x.get("args", [])):
            auto = True
    chk.ob(rd, "unwrapped-delimiter-safe", auto, where=where(i[0]), detail="a value containing the delimiter or a line break is quoted even when no wrap character is configured: %s" % auto)
    # C20.e encodings
    enum = "structs::csv_encode_values::CsvEncodeValues"
    variants = fb.enum_variants(enum) if enum in fb.adts else []
    table = {}
    fallback = None
    # the dispatch is in the writer itself or in a crate function it calls (e.g. a lookup method of the enum)
    dispatch_bodies = [body]
    seen_defs = set()
    frontier = [body]
    for _ in range(2):
        nxt = []
        for bb in frontier:
            for c in hirq.called_defs(bb):
                if c in fb.hir and c not in seen_defs:
                    seen_defs.add(c)
                    nxt.append(fb.hir[c]["body"])
        dispatch_bodies += nxt
        frontier = nxt
    tables_found = [(m, rows) for bb in dispatch_bodies for m, rows in hirq.match_tables(bb) if any(l and l[0].startswith("path:" + enum) for l, _ in rows)]
    with_statics = [(m, rows) for m, rows in tables_found if any(x.get("k") == "path" and x.get("def", "").startswith("encoding_rs::") for _, arm in rows for x in hirq.walk(arm["body"]))]
    for m, rows in (with_statics or tables_found)[:1]:
        for lits, arm in rows:
            statics = [x.get("def") for x in hirq.walk(arm["body"]) if x.get("k") == "path" and x.get("def", "").startswith("encoding_rs::")]
            if lits is None:
                fallback = statics
            else:
                for l in lits:
                    table[l.split("::")[-1]] = statics
    for v in variants:
        want = ENC.ENCODING_RS_STATIC.get(v)
        if want is None:
            # UTF-8 is the identity: it is not mapped to an encoding_rs static, the fallback arm names none, and the
            # text's own bytes are what is written on that path (String::into_bytes / as_bytes somewhere in the function)
            ident = any(c.endswith(("String::into_bytes", "str>::as_bytes", "String::as_bytes")) for c in hirq.called_defs(body))
            ok = ((v not in table and fallback is not None and not fallback) or table.get(v) == []) and ident
            chk.ob(re_, "encoding(%s)" % v, ok, where=fb.loc(d), detail="UTF-8: no encoding_rs static selected (fallback arm: %s), the string's own bytes are written: %s" % (fallback, ident))
        else:
            got = table.get(v)
            ok = got == ["encoding_rs::" + want]
            chk.ob(re_, "encoding(%s)" % v, ok, where=fb.loc(d), detail="variant %s -> %s (expected encoding_rs::%s)" % (v, got, want))
    from props import C01

    C01.rule_number_exact(chk, fb, "C20.f")
    C01.rule_guess_whole(chk, fb, "C20.f.guess")
    C01.rule_rich_text_set(chk, fb, "C20.f.rich")
    import symmetry

    symmetry.rule_parsed_as_stored(chk, fb, "C20.g", only_types=("WorkbookView",), floor=1)
    chk.assume("encoding_rs statics implement the WHATWG encodings of their names; get_highest_column_and_row returns (column, row) (decided under C10.e)")
    chk.note("not decided: that a CSV parser recovers the grid for all values (parser round trip)")
