"""C11 — lazy loading is equivalent to eager loading (structure). Clauses a–c (DESIGN.md section 4)."""
from cfg import CFG
from mirq import Flow
from e2 import direct_fields

WS = "structs::worksheet::Worksheet"
SP = "structs::spreadsheet::Spreadsheet"


def written_fields(b, adt):
    out = set()
    for bl in b["blocks"]:
        for s in bl["s"]:
            if s["k"] == "assign":
                for e in s["lhs"].get("pr", []):
                    if isinstance(e, dict) and e.get("of") == adt:
                        out.add(e["f"])
                if s["rv"]["k"] == "ref" and s["rv"].get("mut"):
                    for e in s["rv"]["place"].get("pr", []):
                        if isinstance(e, dict) and e.get("of") == adt:
                            out.add(e["f"])
    return out


def find_materialiser(fb):
    """The function that turns a raw sheet into a deserialized one: takes &mut Worksheet, returns early on
    is_deserialized() and finally clears the raw data."""
    for d, b in fb.mir.items():
        if b["kind"] == "Fn" and b["argc"] >= 1 and fb.ty(b["locals"][1]["t"]) == "&mut " + WS:
            names = [t.get("fn", "").split("::")[-1] for _, t in fb.calls_in(b)]
            if "is_deserialized" in names and "remove_raw_data_of_worksheet" in names:
                return d
    return None


def run(chk, fb, tier):
    mat = find_materialiser(fb)
    chk.rule("C11.anchor", "the materialiser located by role (raw -> deserialized, &mut Worksheet)", floor=1)
    chk.ob("C11.anchor", "materialiser:%s" % mat, mat is not None, where=fb.loc(mat) if mat else "", nontrivial=False)
    if not mat:
        return
    # L: worksheet fields filled in by deserialisation
    L = set()
    for d in fb.reachable_from([mat]):
        if d in fb.mir:
            L |= written_fields(fb.mir[d], WS)
    raw_field = None
    for f, ty in fb.field_types(WS).items():
        if "RawWorksheet" in ty:
            raw_field = f
    L.discard(raw_field)
    chk.note("fields filled by deserialisation (L): %s" % sorted(L))
    # callees that are sensitive: take a worksheet and (transitively) touch a field in L
    memo = {}

    def touches_L(fn):
        if fn in memo:
            return memo[fn]
        memo[fn] = False
        r = False
        for d in fb.reachable_from([fn], stop=lambda x: x == mat):
            b = fb.mir.get(d)
            if b and d != mat and (direct_fields(b, WS) | written_fields(b, WS)) & L:
                r = True
                break
        memo[fn] = r
        return r

    def takes_ws(fn):
        b = fb.mir.get(fn)
        if not b:
            return False
        return any(fb.ty(b["locals"][i]["t"]).replace("&mut ", "&") == "&" + WS for i in range(1, b["argc"] + 1))

    # functions that materialise every sheet
    mat_all = set()
    for d, b in fb.mir.items():
        if b.get("self_ty") == SP and b["kind"] == "AssocFn":
            cfg = CFG(b)
            for bi, t in fb.calls_in(b):
                if t.get("fn") == mat and any(x in cfg.natural_loop(tail, head) for tail, head in cfg.back_edges() for x in [bi]):
                    mat_all.add(d)
    changed = True
    while changed:
        changed = False
        for d, b in fb.mir.items():
            if d in mat_all or b.get("self_ty") != SP or b["kind"] != "AssocFn":
                continue
            cfg = CFG(b)
            for bi, t in fb.calls_in(b):
                if t.get("fn") in mat_all and cfg.every_path_to_exit_passes(0, [bi]):
                    mat_all.add(d)
                    changed = True
    ra = chk.rule(
        "C11.a",
        "materialise before access: wherever an element of the workbook's sheet list that may still be raw is handed to code that touches fields filled by deserialisation, that use is dominated by a materialisation of all sheets / of that sheet, or is control-dependent on is_deserialized()",
        floor=6,
    )
    raw_getters = {d for d, b in fb.mir.items() if b.get("self_ty") == SP and b["kind"] == "AssocFn" and "work_sheet_collection" in direct_fields(b, SP) and WS in fb.ty(b["locals"][0]["t"]) and d not in mat_all
                   and not any(t.get("fn") == mat or t.get("fn", "").endswith("is_deserialized") for bd in _with_closures(fb, d) for _, t in fb.calls_in(fb.mir[bd]))}
    chk.note("accessors that hand out possibly-raw sheets: %s" % sorted(x.split("::")[-1] for x in raw_getters))
    for d, b in sorted(fb.mir.items()):
        if b["kind"] == "Closure" and not d.startswith("structs::spreadsheet") and not d.startswith("writer::"):
            continue
        if not (b.get("self_ty") == SP or d.startswith("writer::") or d.startswith("structs::spreadsheet::") or "Spreadsheet as" in d):
            continue
        fl = Flow(fb, b)
        cfg = None
        n = 0
        for bi, t in fl.calls():
            f = t.get("fn", "")
            if f == mat or f not in fb.mir or not takes_ws(f) or not touches_L(f):
                continue
            # does a worksheet argument derive from the raw list?
            from_list = False
            for a in t["args"]:
                if "p" not in a:
                    continue
                ty = fb.ty(b["locals"][a["p"]["l"]]["t"])
                if WS not in ty:
                    continue
                at = fl.atoms(a)
                if ("field", SP, "work_sheet_collection") in at or any(x[0] == "call" and x[1] in raw_getters for x in at) or (b["kind"] == "Closure" and any(x[0] == "arg" for x in at) and _closure_over_raw(fb, d)):
                    from_list = True
            if not from_list:
                continue
            cfg = cfg or CFG(b)
            mats = [x for x, tt in fl.calls() if tt.get("fn") in mat_all or tt.get("fn") == mat]
            dominated = any(cfg.dominates(x, bi) for x in mats)
            guarded = False
            for x in cfg.control_deps_transitive(bi):
                at = fl.atoms(b["blocks"][x]["t"]["op"])
                if any(y[0] == "call" and y[1].endswith("is_deserialized") for y in at):
                    guarded = True
            chk.touch(d)
            chk.ob(ra, "%s->%s#%d" % (d, f.split("::")[-1], n), dominated or guarded, where="%s:%s" % (b["file"], t["ln"]),
                   detail="a possibly raw sheet is passed to %s (touches deserialised fields); dominated by a materialisation: %s; guarded by is_deserialized(): %s" % (f.split("::")[-1], dominated, guarded))
            n += 1
    # C11.b
    rb = chk.rule(
        "C11.b",
        "a raw sheet and its relationships are written under one number: in the raw-sheet writer the part name of the sheet's own .rels derives from the same sheet number as the sheet part",
        floor=1,
    )
    for d, b in sorted(fb.mir.items()):
        if b.get("self_ty", "").endswith("RawWorksheet") and b["kind"] == "AssocFn" and any(t.get("fn", "").endswith("WriterManager::<'a, W>::add_bin") for _, t in fb.calls_in(b)):
            fl = Flow(fb, b)
            nums = [i for i in range(1, b["argc"] + 1) if fb.ty(b["locals"][i]["t"]) in ("&i32", "&u32", "&usize", "i32", "u32", "usize")]
            sheet_ok = any(any(a == ("arg", nums[0]) for a in fl.atoms(t["args"][1])) for _, t in fl.calls(lambda t: t.get("fn", "").endswith("add_bin"))) if nums else False
            rels_ok = False
            for bi, t in fl.calls(lambda t: t.get("fn", "").endswith("RawRelationships::write_to")):
                if len(t["args"]) > 2 and nums and ("arg", nums[0]) in fl.atoms(t["args"][2]):
                    rels_ok = True
            chk.touch(d)
            chk.ob(rb, "%s:same-number" % d, sheet_ok and rels_ok, where=fb.loc(d), detail="sheet part named from the sheet number: %s; its relationships part named from the same number: %s" % (sheet_ok, rels_ok))
    # C11.c tables only grow
    rc = chk.rule(
        "C11.c",
        "tables that raw sheets index into only grow: nothing reachable from the public API or the writer removes, reorders or truncates the shared-string list, the cell-format list or the style component lists",
        floor=4,
    )
    shrink = ("remove", "clear", "truncate", "drain", "retain", "swap_remove", "pop", "sort", "sort_by", "reverse", "dedup", "insert", "swap", "split_off")
    tables = [
        ("structs::shared_string_table::SharedStringTable", "shared_string_item"),
        ("structs::cell_formats::CellFormats", "cell_format"),
        ("structs::fonts::Fonts", "font"),
        ("structs::fills::Fills", "fill"),
        ("structs::borders_crate::BordersCrate", "borders"),
        ("structs::stylesheet::Stylesheet", "maked_style_list"),
    ]
    for adt, field in tables:
        if adt not in fb.adts or field not in fb.struct_fields(adt):
            chk.ob(rc, "%s.%s" % (adt.split("::")[-1], field), False, detail="table field not found")
            continue
        bad = []
        for d, b in fb.mir.items():
            fl = None
            for bi, t in fb.calls_in(b):
                nm = t.get("fn", "").split("::")[-1]
                if nm in shrink and ("ThinVec" in t.get("fn", "") or "Vec::" in t.get("fn", "") or "[T]" in t.get("fn", "")) and t["args"]:
                    fl = fl or Flow(fb, b)
                    at = fl.atoms(t["args"][0])
                    getters = [x[1] for x in at if x[0] == "call" and fb.mir.get(x[1], {}).get("self_ty") == adt and "mut" in x[1].split("::")[-1]]
                    if ("field", adt, field) in at or any(field in direct_fields(fb.mir[g], adt) for g in getters):
                        bad.append("%s:%s %s" % (b["file"], t["ln"], nm))
        chk.ob(rc, "%s.%s" % (adt.split("::")[-1], field), not bad, where=fb.adts[adt]["file"], detail="shrinking/reordering operations on the list: %s" % (bad or "none"))
    from props import C12

    C12.rule_table_choice(chk, fb, "C11.c")
    chk.assume("Vec/ThinVec push appends at the end and never moves existing elements")
    chk.note("not decided: equivalence of lazily and eagerly loaded content (value-level)")


def _with_closures(fb, d):
    from props.C07 import bodies_with_closures

    return bodies_with_closures(fb, d)


def _closure_over_raw(fb, d):
    """Is this closure applied to elements of the raw sheet list (parent passes it to an iterator over it)?"""
    parent = d.rsplit("::{closure", 1)[0]
    pb = fb.mir.get(parent)
    if not pb:
        return False
    fl = Flow(fb, pb)
    for bi, t in fl.calls():
        for a in t["args"][1:]:
            if any(x[0] == "cfn" and x[1] == d for x in fl.atoms(a)):
                at = fl.atoms(t["args"][0])
                if ("field", SP, "work_sheet_collection") in at or any(x[0] == "call" and x[1].endswith("get_sheet_collection_no_check") for x in at):
                    return True
    return False
