"""C11 — lazy loading is equivalent to eager loading (structure). Clauses a–c (DESIGN.md section 4)."""
from cfg import CFG
from mirq import Flow
from e2 import direct_fields

WS = "structs::worksheet::Worksheet"
SP = "structs::spreadsheet::Spreadsheet"


def written_fields(b, adt):
    out = set()
    for bl in b["blocks"]:
        for s in bl["s"]:
            if s["k"] == "assign":
                for e in s["lhs"].get("pr", []):
                    if isinstance(e, dict) and e.get("of") == adt:
                        out.add(e["f"])
                if s["rv"]["k"] == "ref" and s["rv"].get("mut"):
                    for e in s["rv"]["place"].get("pr", []):
                        if isinstance(e, dict) and e.get("of") == adt:
                            out.add(e["f"])
    return out


def find_materialiser(fb):
    """The function that turns a raw sheet into a deserialized one: takes &mut Worksheet, returns early on
    is_deserialized() and finally clears the raw data."""
    for d, b in fb.mir.items():
        if b["kind"] == "Fn" and b["argc"] >= 1 and fb.ty(b["locals"][1]["t"]) == "&mut " + WS:
            names = [t.get("fn", "").split("::")[-1] for _, t in fb.calls_in(b)]
            if "is_deserialized" in names and "remove_raw_data_of_worksheet" in names:
                return d
    return None


def counter_incs(b):
    """(local, block of `local += 1`) for every local incremented by the constant 1."""
    out = []
    for bi, bl in enumerate(b["blocks"]):
        for st in bl["s"]:
            if st["k"] == "assign" and st["rv"]["k"] == "bin" and st["rv"]["op"] in ("AddWithOverflow", "Add") and st["rv"]["b"].get("i") == 1 and "p" in st["rv"]["a"] and not st["rv"]["a"]["p"].get("pr"):
                x = st["rv"]["a"]["p"]["l"]
                t = bl["t"]
                nxt = t.get("t") if t["k"] == "assert" else None
                for bj in [bi] + ([nxt] if nxt is not None else []):
                    for s2 in b["blocks"][bj]["s"]:
                        if s2["k"] == "assign" and s2["lhs"]["l"] == x and not s2["lhs"].get("pr"):
                            out.append((x, bj))
    return out


def _zip_range_start(b):
    """Start constant of the `s..` range that is zipped with something in body b (None if there is no such zip, or more
    than one start value)."""
    starts = set()
    for bl in b["blocks"]:
        t = bl["t"]
        if t["k"] == "call" and t.get("fn", "").split("::")[-1] == "zip" and t["args"] and "p" in t["args"][0]:
            l0 = t["args"][0]["p"]["l"]
            for bl2 in b["blocks"]:
                for st in bl2["s"]:
                    if st["k"] == "assign" and st["lhs"]["l"] == l0 and not st["lhs"].get("pr"):
                        rv = st["rv"]
                        if rv["k"] == "agg" and "RangeFrom" in str(rv.get("adt", "")) and rv.get("ops") and "i" in rv["ops"][0]:
                            starts.add(rv["ops"][0]["i"])
                        elif rv["k"] == "use" and "promoted" in rv.get("op", {}):
                            pv = b.get("promoted") or []
                            i = rv["op"]["promoted"]
                            if i < len(pv) and pv[i] and "i" in pv[i][0]:
                                starts.add(pv[i][0]["i"])
    return next(iter(starts)) if len(starts) == 1 else None


def _num_expr(b, l, depth=0):
    """Symbolic value of an integer-ish local: ("local", x, k) = value of local x plus k, ("enum", bi, k) = index yielded by
    the Enumerate::next call in block bi plus k, or None. Follows copies, references, derefs, to_string/deref calls,
    integer casts and `+ const`."""
    if depth > 14:
        return None
    defs = []
    for bi, bl in enumerate(b["blocks"]):
        for st in bl["s"]:
            if st["k"] == "assign" and st["lhs"]["l"] == l and not st["lhs"].get("pr"):
                defs.append(("s", st["rv"], bi))
        t = bl["t"]
        if t["k"] == "call" and t.get("dest", {}).get("l") == l and not t.get("dest", {}).get("pr"):
            defs.append(("c", t, bi))
    if len(defs) != 1:
        return ("local", l, 0)
    kind, x, bi = defs[0]
    if kind == "c":
        nm = x.get("fn", "")
        if nm.split("::")[-1] in ("to_string", "deref", "clone") and x["args"] and "p" in x["args"][0]:
            return _num_expr(b, x["args"][0]["p"]["l"], depth + 1)
        if "Enumerate" in nm and nm.endswith("::next"):
            return ("enumnext", bi, 0)
        if "Zip" in nm and nm.endswith("::next"):
            # (s..).zip(list): component 0 of the item is s + position
            s0 = _zip_range_start(b)
            if s0 is not None:
                return ("enumnext", bi, s0)
        return ("local", l, 0)
    rv = x
    if rv["k"] == "ref":
        return _num_expr(b, rv["place"]["l"], depth + 1) if all(e == "*" for e in rv["place"].get("pr", [])) else ("local", l, 0)
    if rv["k"] in ("use", "cast") and "p" in rv.get("op", {}):
        pl = rv["op"]["p"]
        inner = _num_expr(b, pl["l"], depth + 1)
        prs = [e for e in pl.get("pr", []) if e != "*"]
        if not prs:
            return inner
        # projections: (Option<(usize, T)> as Some).0.0 of an Enumerate::next result is the index; (T, bool).0 of a checked add
        fields = [e.get("f") for e in prs if isinstance(e, dict) and "f" in e]
        if inner and inner[0] == "enumnext":
            return ("enum", inner[1], inner[2]) if fields[-1:] == ["0"] and len(fields) >= 2 else ("local", l, 0)
        if inner and inner[0] == "tuple_enum":
            return ("enum", inner[1], 0) if fields == ["0"] else ("local", l, 0)
        if inner and inner[0] == "checked" and fields == ["0"]:
            return inner[1]
        return ("local", l, 0)
    if rv["k"] == "bin" and rv["op"] in ("Add", "AddWithOverflow") and "p" in rv["a"] and "i" in rv["b"]:
        inner = _num_expr(b, rv["a"]["p"]["l"], depth + 1)
        if inner and inner[0] in ("local", "enum"):
            v = (inner[0], inner[1], inner[2] + rv["b"]["i"])
            return ("checked", v) if rv["op"] == "AddWithOverflow" else v
    return ("local", l, 0)


def rule_positions(chk, fb):
    """Sheet parts are numbered by position in the sheet list, in every pass over it (raw and loaded sheets alike)."""
    rp = chk.rule(
        "C11.b.pos",
        "sheet numbers are positions: in every loop of the package writer over the sheet list, every sheet number handed to a part writer equals 1 + the number of sheets before it - a counter that starts right and advances on every path through the loop body (a skipped raw sheet still counts), or the enumeration index + 1",
        floor=2,
    )
    d = "writer::xlsx::make_buffer"
    b = fb.mir.get(d)
    if not b:
        chk.ob(rp, "anchor", False, detail="package writer make_buffer not found")
        return
    positional(chk, fb, rp, d, lambda at: any(a[0] == "call" and a[1].endswith("get_sheet_collection_no_check") for a in at), "loop", what="sheet")


def positional(chk, fb, rp, d, is_source, key, what="item"):
    """Every number handed to a crate function inside a loop over the selected source is 1 + the number of elements
    before the current one."""
    b = fb.mir[d]
    chk.touch(d)
    fl = Flow(fb, b)
    cfg = CFG(b)
    loops = {}
    for t, h in cfg.back_edges():
        loops.setdefault(h, [set(), []])
        loops[h][0] |= cfg.natural_loop(t, h)
        loops[h][1].append(t)
    # loops over the sheet list, outermost first
    sheet_loops = []
    for h, (body, tails) in sorted(loops.items()):
        nx = [(bi, t) for bi, t in fl.calls() if bi in body and t.get("fn", "").endswith("::next") and is_source(fl.atoms(t["args"][0]))]
        if nx and not any(h in loops[h2][0] and h2 != h and any(bi in loops[h2][0] for bi, _ in nx) and len(loops[h2][0]) > len(body) and False for h2 in loops):
            # the loop whose own header drives that iterator: the next() call is in the smallest such loop
            if all(len(body) <= len(loops[h2][0]) for h2 in loops if all(bi in loops[h2][0] for bi, _ in nx)):
                sheet_loops.append((h, body, tails, nx))
    incs = counter_incs(b)
    n_use = 0
    for li, (h, body, tails, nx) in enumerate(sheet_loops):
        for bi2, t in fl.calls():
            if bi2 not in body or t.get("fn", "") not in fb.mir or t.get("fn", "").startswith(("std::", "core::")):
                continue
            for ai, a in enumerate(t["args"]):
                if "p" not in a:
                    continue
                tyn = fb.ty(b["locals"][a["p"]["l"]]["t"])
                if tyn not in ("&i32", "&u32", "&usize", "i32", "u32", "usize", "&std::string::String", "&str"):
                    continue
                e = _num_expr(b, a["p"]["l"])
                if not e or e[0] not in ("local", "enum"):
                    continue
                callee = t["fn"].split("::")[-2] + "::" + t["fn"].split("::")[-1]
                if e[0] == "enum":
                    if e[1] not in [x for x, _ in nx] and not any(bb in body for bb in [e[1]]):
                        continue
                    ok = e[2] == 1
                    chk.ob(rp, "%s#%d:%s:arg%d" % (key, li, callee, ai), ok, where="%s:%s" % (b["file"], t["ln"]), detail="%s number = enumeration index + %d" % (what, e[2]))
                    n_use += 1
                    continue
                x, off = e[1], e[2]
                mine = [ib for (xx, ib) in incs if xx == x and ib in body]
                if not mine:
                    continue
                ib = mine[0]
                name = b["locals"][x].get("n") or "counter"
                # the counter advances on every path through the body
                seen = set()
                work = [h]
                while work:
                    y = work.pop()
                    if y in seen or y == ib or y not in body:
                        continue
                    seen.add(y)
                    work.extend(z for z in cfg.succ[y] if z != h)
                bypass = any(tl in seen for tl in tails)
                init = None
                for bi3, bl in enumerate(b["blocks"]):
                    if bi3 in body:
                        continue
                    for st in bl["s"]:
                        if st["k"] == "assign" and st["lhs"]["l"] == x and not st["lhs"].get("pr") and st["rv"]["k"] == "use" and "i" in st["rv"]["op"] and cfg.dominates(bi3, h):
                            init = st["rv"]["op"]["i"]
                before = cfg.dominates(ib, bi2) and bi2 in cfg.reachable(ib, avoid=[h])
                after = bi2 not in cfg.reachable(ib, avoid=[h])
                val = None if init is None or not (before or after) else init + (1 if before else 0) + off
                ok = val == 1 and not bypass
                chk.ob(rp, "%s#%d:%s:arg%d" % (key, li, callee, ai), ok, where="%s:%s" % (b["file"], t["ln"]),
                       detail="counter `%s`: initial value %s, increment %s the use, offset %d: the first %s is numbered %s; %s" % (
                           name, init, "before" if before else ("after" if after else "neither always before nor always after"), off, what, val,
                           "some path through the loop body skips the increment (%ss after a skipped one get the wrong number)" % what if bypass else "incremented on every path through the loop body"))
                n_use += 1


def _derives_from_local(b, l, x, depth=0):
    """l is x, &x, &*(&x) or a plain copy of those."""
    if l == x:
        return True
    if depth > 10:
        return False
    for bl in b["blocks"]:
        for st in bl["s"]:
            if st["k"] == "assign" and st["lhs"]["l"] == l and not st["lhs"].get("pr"):
                rv = st["rv"]
                if rv["k"] == "ref":
                    return _derives_from_local(b, rv["place"]["l"], x, depth + 1)
                if rv["k"] == "use" and "p" in rv["op"]:
                    return _derives_from_local(b, rv["op"]["p"]["l"], x, depth + 1)
        t = bl["t"]
        if t["k"] == "call" and t.get("dest", {}).get("l") == l and t.get("fn", "").split("::")[-1] in ("to_string", "deref") and t["args"] and "p" in t["args"][0]:
            return _derives_from_local(b, t["args"][0]["p"]["l"], x, depth + 1)
    return False


def rule_raw_first(chk, fb):
    """Raw sheets bring parts under fixed names; parts of loaded sheets are numbered around what is already in the
    archive. That only works if every raw sheet has been written before the first number is handed out."""
    re_ = chk.rule(
        "C11.e",
        "raw parts first: in the package writer no call that writes a raw (unloaded) sheet with its original parts is reachable from a call that allocates a numbered part name against the archive's contents",
        floor=1,
    )
    d = "writer::xlsx::make_buffer"
    b = fb.mir.get(d)
    if not b:
        chk.ob(re_, "anchor", False, detail="package writer not found")
        return
    WM = "structs::writer_manager::WriterManager"
    alloc = {x for x, xb in fb.mir.items() if (xb.get("self_ty") or "").startswith(WM) and x.split("::")[-1] not in ("add_writer", "add_bin", "check_file_exist") and any(t.get("fn", "").endswith("::check_file_exist") for _, t in fb.calls_in(xb))}
    raw_writers = {x for x, xb in fb.mir.items() if (xb.get("self_ty") or "").endswith("RawWorksheet") and any(t.get("fn", "").endswith("::add_bin") for _, t in fb.calls_in(xb))}
    cfg = CFG(b)
    memo = {}

    def reaches_alloc(f):
        if f not in memo:
            memo[f] = f in alloc or (f in fb.mir and bool(alloc & fb.reachable_from([f])))
        return memo[f]

    A = [(bi, t) for bi, t in fb.calls_in(b) if reaches_alloc(t.get("fn", ""))]
    R = [(bi, t) for bi, t in fb.calls_in(b) if t.get("fn") in raw_writers]
    chk.touch(d)
    bad = [(a, r_) for a in A for r_ in R if r_[0] in cfg.reachable_strict(a[0])]
    chk.ob(re_, "make_buffer:raw-before-allocation", bool(A) and bool(R) and not bad, where=fb.loc(d),
           detail="%d allocating call(s), %d raw-sheet write(s); %s" % (len(A), len(R), "no raw write follows an allocation" if not bad else "a raw sheet can be written AFTER `%s` (line %s) picked a number: its part of the same name is then silently skipped and the sheet is attached to the other sheet's part" % (bad[0][0][1]["fn"].split("::")[-2] + "::" + bad[0][0][1]["fn"].split("::")[-1], bad[0][0][1]["ln"])))


def rule_guard_scope(chk, fb, L, raw_field):
    """`is_deserialized()` may decide whether to look at what deserialisation fills in - nothing else. State that a raw
    sheet already has (its name, the defined names attached at open time, visibility ...) must be maintained for raw
    sheets too."""
    rg = chk.rule(
        "C11.a.guard",
        "the raw/loaded distinction only guards loaded content: in methods of the sheet, code that runs only when is_deserialized() is true touches no sheet field outside the set that deserialisation fills",
        floor=0,
    )
    n = 0
    for d, b in sorted(fb.mir.items()):
        if b.get("self_ty") != WS or b["kind"] != "AssocFn":
            continue
        fl = Flow(fb, b)
        cfg = None
        for bi, bl in enumerate(b["blocks"]):
            t = bl["t"]
            if t["k"] != "switch":
                continue
            at = fl.atoms(t["op"], through_calls=False)
            if not any(a[0] == "call" and a[1].endswith("::is_deserialized") for a in at) or len(at) != 1:
                continue
            cfg = cfg or CFG(b)
            if len(t.get("targets", [])) != 1 or t["targets"][0][0] != 0:
                continue
            f_succ, t_succ = t["targets"][0][1], t["otherwise"]
            only_true = cfg.reachable(t_succ) - cfg.reachable(f_succ)
            touched = set()
            for x in only_true:
                bb = {"blocks": [b["blocks"][x]], "locals": b["locals"]}
                touched |= direct_fields(bb, WS) | written_fields(bb, WS)
                tt = b["blocks"][x]["t"]
                if tt["k"] == "call" and fb.mir.get(tt.get("fn", ""), {}).get("self_ty") == WS:
                    cb = fb.mir[tt["fn"]]
                    touched |= direct_fields(cb, WS) | written_fields(cb, WS)
            outside = sorted(f for f in touched if f not in L and f != raw_field)
            chk.touch(d)
            chk.ob(rg, "%s#%d" % (d.split("::", 2)[-1], n), not outside, where="%s:%s" % (b["file"], t.get("ln")),
                   detail="code that runs only for a deserialised sheet touches %s%s" % (sorted(touched) or "no sheet field", "" if not outside else "; %s exist(s) for raw sheets as well and is skipped for them" % outside))
            n += 1


def run(chk, fb, tier):
    mat = find_materialiser(fb)
    chk.rule("C11.anchor", "the materialiser located by role (raw -> deserialized, &mut Worksheet)", floor=1)
    chk.ob("C11.anchor", "materialiser:%s" % mat, mat is not None, where=fb.loc(mat) if mat else "", nontrivial=False)
    if not mat:
        return
    # L: worksheet fields filled in by deserialisation
    L = set()
    for d in fb.reachable_from([mat]):
        if d in fb.mir:
            L |= written_fields(fb.mir[d], WS)
    raw_field = None
    for f, ty in fb.field_types(WS).items():
        if "RawWorksheet" in ty:
            raw_field = f
    L.discard(raw_field)
    chk.note("fields filled by deserialisation (L): %s" % sorted(L))
    # callees that are sensitive: take a worksheet and (transitively) touch a field in L
    memo = {}

    def touches_L(fn):
        if fn in memo:
            return memo[fn]
        memo[fn] = False
        r = False
        for d in fb.reachable_from([fn], stop=lambda x: x == mat):
            b = fb.mir.get(d)
            if b and d != mat and (direct_fields(b, WS) | written_fields(b, WS)) & L:
                r = True
                break
        memo[fn] = r
        return r

    def takes_ws(fn):
        b = fb.mir.get(fn)
        if not b:
            return False
        return any(fb.ty(b["locals"][i]["t"]).replace("&mut ", "&") == "&" + WS for i in range(1, b["argc"] + 1))

    # functions that materialise every sheet
    mat_all = set()
    for d, b in fb.mir.items():
        if b.get("self_ty") == SP and b["kind"] == "AssocFn":
            cfg = CFG(b)
            for bi, t in fb.calls_in(b):
                # the loop that materialises every sheet is entered on every path (no early return in front of it)
                if t.get("fn") == mat and any(bi in cfg.natural_loop(tail, head) and (cfg.postdominates(head, 0) or head == 0) for tail, head in cfg.back_edges()):
                    mat_all.add(d)
    changed = True
    while changed:
        changed = False
        for d, b in fb.mir.items():
            if d in mat_all or b.get("self_ty") != SP or b["kind"] != "AssocFn":
                continue
            cfg = CFG(b)
            for bi, t in fb.calls_in(b):
                if t.get("fn") in mat_all and cfg.every_path_to_exit_passes(0, [bi]):
                    mat_all.add(d)
                    changed = True
    ra = chk.rule(
        "C11.a",
        "materialise before access: wherever an element of the workbook's sheet list that may still be raw is handed to code that touches fields filled by deserialisation, that use is dominated by a materialisation of all sheets / of that sheet, or is control-dependent on is_deserialized()",
        floor=6,
    )
    raw_getters = {d for d, b in fb.mir.items() if b.get("self_ty") == SP and b["kind"] == "AssocFn" and "work_sheet_collection" in direct_fields(b, SP) and WS in fb.ty(b["locals"][0]["t"]) and d not in mat_all
                   and not any(t.get("fn") == mat or t.get("fn", "").endswith("is_deserialized") for bd in _with_closures(fb, d) for _, t in fb.calls_in(fb.mir[bd]))}
    chk.note("accessors that hand out possibly-raw sheets: %s" % sorted(x.split("::")[-1] for x in raw_getters))
    # what is handed out by &mut can be edited by the caller: a sheet that is still raw would take the edit into its model
    # while the writer copies its original XML - the edit is lost
    rh = chk.rule(
        "C11.a.handout",
        "mutable sheets are handed out loaded: every public method of the workbook that returns `&mut Worksheet` taken from the sheet list materialises (that sheet or all sheets) first - unless the sheet is the one it has just appended",
        floor=3,
    )
    for d, b in sorted(fb.mir.items()):
        if b.get("self_ty") != SP or b["kind"] != "AssocFn" or b.get("vis") != "pub" or not ("&mut " in fb.ty(b["locals"][0]["t"]) and WS in fb.ty(b["locals"][0]["t"])):
            continue
        if "work_sheet_collection" not in direct_fields(b, SP) and not any(t.get("fn") in raw_getters for _, t in fb.calls_in(b)):
            # built on other accessors: those are inspected themselves
            if not any(fb.mir.get(t.get("fn", ""), {}).get("self_ty") == SP for _, t in fb.calls_in(b)):
                continue
        appends = any(t.get("fn", "").split("::")[-1] in ("push", "insert") and "ThinVec" in t.get("fn", "") for _, t in fb.calls_in(b)) or any(t.get("fn", "").split("::")[-1] in ("add_sheet", "add_new_sheet_crate", "new_sheet") for _, t in fb.calls_in(b))
        loaded = d not in raw_getters and (d in mat_all or any(t.get("fn") == mat or t.get("fn") in mat_all or (fb.mir.get(t.get("fn", ""), {}).get("self_ty") == SP and "&mut " in fb.ty(fb.mir[t["fn"]]["locals"][0]["t"]) and WS in fb.ty(fb.mir[t["fn"]]["locals"][0]["t"]) and t["fn"] not in raw_getters) for bd in _with_closures(fb, d) for _, t in fb.calls_in(fb.mir[bd])))
        chk.touch(d)
        chk.ob(rh, d.split("::")[-1], loaded or appends, where=fb.loc(d), detail="returns &mut Worksheet; materialises first (itself or through the accessor it delegates to): %s; returns the sheet it has just appended: %s" % (loaded, appends))
    for d, b in sorted(fb.mir.items()):
        if b["kind"] == "Closure" and not d.startswith("structs::spreadsheet") and not d.startswith("writer::"):
            continue
        if not (b.get("self_ty") == SP or d.startswith("writer::") or d.startswith("structs::spreadsheet::") or "Spreadsheet as" in d):
            continue
        fl = Flow(fb, b)
        cfg = None
        n = 0
        for bi, t in fl.calls():
            f = t.get("fn", "")
            if f == mat or f not in fb.mir or not takes_ws(f) or not touches_L(f):
                continue
            # does a worksheet argument derive from the raw list?
            from_list = False
            for a in t["args"]:
                if "p" not in a:
                    continue
                ty = fb.ty(b["locals"][a["p"]["l"]]["t"])
                if WS not in ty:
                    continue
                at = fl.atoms(a)
                if ("field", SP, "work_sheet_collection") in at or any(x[0] == "call" and x[1] in raw_getters for x in at) or (b["kind"] == "Closure" and any(x[0] == "arg" for x in at) and _closure_over_raw(fb, d)):
                    from_list = True
            if not from_list:
                continue
            cfg = cfg or CFG(b)
            mats = [x for x, tt in fl.calls() if tt.get("fn") in mat_all or tt.get("fn") == mat]
            dominated = any(cfg.dominates(x, bi) for x in mats)
            guarded = False
            for x in cfg.control_deps_transitive(bi):
                at = fl.atoms(b["blocks"][x]["t"]["op"])
                if any(y[0] == "call" and y[1].endswith("is_deserialized") for y in at):
                    guarded = True
            # skipping a raw sheet is only equivalent to loading it when the use is a read (the writer copies raw sheets
            # verbatim); an update that skips raw sheets leaves them stale
            mutating = any("p" in a and fb.ty(b["locals"][a["p"]["l"]]["t"]) == "&mut " + WS for a in t["args"])
            chk.touch(d)
            chk.ob(ra, "%s->%s#%d" % (d, f.split("::")[-1], n), dominated or (guarded and not mutating), where="%s:%s" % (b["file"], t["ln"]),
                   detail="a possibly raw sheet is passed to %s (touches deserialised fields%s); dominated by a materialisation: %s; guarded by is_deserialized(): %s%s" % (f.split("::")[-1], ", by &mut" if mutating else "", dominated, guarded, " (a guard does not do for an update: skipped sheets stay stale)" if mutating and guarded and not dominated else ""))
            n += 1
    # C11.b
    rb = chk.rule(
        "C11.b",
        "a raw sheet and its relationships are written under one number: in the raw-sheet writer the part name of the sheet's own .rels derives from the same sheet number as the sheet part",
        floor=1,
    )
    for d, b in sorted(fb.mir.items()):
        if b.get("self_ty", "").endswith("RawWorksheet") and b["kind"] == "AssocFn" and any(t.get("fn", "").endswith("WriterManager::<'a, W>::add_bin") for _, t in fb.calls_in(b)):
            fl = Flow(fb, b)
            nums = [i for i in range(1, b["argc"] + 1) if fb.ty(b["locals"][i]["t"]) in ("&i32", "&u32", "&usize", "i32", "u32", "usize")]
            sheet_ok = any(any(a == ("arg", nums[0]) for a in fl.atoms(t["args"][1])) for _, t in fl.calls(lambda t: t.get("fn", "").endswith("add_bin"))) if nums else False
            rels_ok = False
            for bi, t in fl.calls(lambda t: t.get("fn", "").endswith("RawRelationships::write_to")):
                if len(t["args"]) > 2 and nums and ("arg", nums[0]) in fl.atoms(t["args"][2]):
                    rels_ok = True
            chk.touch(d)
            chk.ob(rb, "%s:same-number" % d, sheet_ok and rels_ok, where=fb.loc(d), detail="sheet part named from the sheet number: %s; its relationships part named from the same number: %s" % (sheet_ok, rels_ok))
    # C11.b.once the sheet's own relationships part must not also be written under its old name
    ro = chk.rule(
        "C11.b.once",
        "a raw sheet's own relationships part is written once: in the raw-sheet writer a relationships part is written under its original name only on the `false` side of the test `its name == the sheet's own .rels name`",
        floor=1,
    )
    from props.C02 import _neg_guarded

    for d, b in sorted(fb.mir.items()):
        if b.get("self_ty", "").endswith("RawWorksheet") and b["kind"] == "AssocFn" and any(t.get("fn", "").endswith("WriterManager::<'a, W>::add_bin") for _, t in fb.calls_in(b)):
            fl = Flow(fb, b)
            cfg = CFG(b)
            n = 0
            for bi, t in fl.calls(lambda t: t.get("fn", "").endswith("RawRelationships::write_to")):
                if len(t["args"]) < 3 or "p" not in t["args"][2]:
                    continue
                l = t["args"][2]["p"]["l"]
                is_none = any(st["k"] == "assign" and st["lhs"]["l"] == l and st["rv"]["k"] == "agg" and st["rv"].get("variant") == "None" for bl in b["blocks"] for st in bl["s"])
                if not is_none:
                    # one call for both cases: the new name is `test.then_some(new)` / `.then(..)` of the very same test
                    sel = [a for a in fl.atoms(t["args"][2], through_calls=False) if a[0] == "call" and a[1].split("::")[-1] in ("then_some", "then")]
                    if sel:
                        ta = fl.atoms(b["blocks"][sel[0][2]]["t"]["args"][0])
                        ok = any(a[0] == "call" and a[1].endswith("::eq") for a in ta) and any(a[0] == "call" and a[1].endswith("get_file_target") for a in ta) and any(a[0] == "call" and a[1].endswith("make_rel_name") for a in ta)
                        chk.ob(ro, "%s:as-is#%d" % (d, n), ok, where="%s:%s" % (b["file"], t["ln"]),
                               detail="one write for both cases; the new name is selected by %s" % ("the test `its name == the sheet's own .rels name`" if ok else "something else than that test"))
                        n += 1
                    continue
                cbs = _neg_guarded(cfg, fl, b, bi, lambda a: a[1].endswith("::eq"))
                ok = False
                for cb in cbs:
                    at = set()
                    for a in b["blocks"][cb]["t"]["args"]:
                        at |= fl.atoms(a)
                    if any(a[0] == "call" and a[1].endswith("get_file_target") for a in at) and any(a[0] == "call" and a[1].endswith("make_rel_name") for a in at):
                        ok = True
                chk.ob(ro, "%s:as-is#%d" % (d, n), ok, where="%s:%s" % (b["file"], t["ln"]),
                       detail="relationships written under their original name %s" % ("only when they are not the sheet's own" if ok else "without excluding the sheet's own .rels: after renumbering it exists under the old AND the new name, and the old one shadows the next sheet's"))
                n += 1
    # C11.c tables only grow
    rc = chk.rule(
        "C11.c",
        "tables that raw sheets index into only grow: nothing reachable from the public API or the writer removes, reorders or truncates the shared-string list, the cell-format list or the style component lists",
        floor=4,
    )
    shrink = ("remove", "clear", "truncate", "drain", "retain", "swap_remove", "pop", "sort", "sort_by", "reverse", "dedup", "insert", "swap", "split_off")
    tables = [
        ("structs::shared_string_table::SharedStringTable", "shared_string_item"),
        ("structs::cell_formats::CellFormats", "cell_format"),
        ("structs::fonts::Fonts", "font"),
        ("structs::fills::Fills", "fill"),
        ("structs::borders_crate::BordersCrate", "borders"),
        ("structs::stylesheet::Stylesheet", "maked_style_list"),
    ]
    for adt, field in tables:
        if adt not in fb.adts or field not in fb.struct_fields(adt):
            chk.ob(rc, "%s.%s" % (adt.split("::")[-1], field), False, detail="table field not found")
            continue
        bad = []
        for d, b in fb.mir.items():
            fl = None
            for bi, t in fb.calls_in(b):
                nm = t.get("fn", "").split("::")[-1]
                if nm in shrink and ("ThinVec" in t.get("fn", "") or "Vec::" in t.get("fn", "") or "[T]" in t.get("fn", "")) and t["args"]:
                    fl = fl or Flow(fb, b)
                    at = fl.atoms(t["args"][0])
                    getters = [x[1] for x in at if x[0] == "call" and fb.mir.get(x[1], {}).get("self_ty") == adt and "mut" in x[1].split("::")[-1]]
                    if ("field", adt, field) in at or any(field in direct_fields(fb.mir[g], adt) for g in getters):
                        bad.append("%s:%s %s" % (b["file"], t["ln"], nm))
        chk.ob(rc, "%s.%s" % (adt.split("::")[-1], field), not bad, where=fb.adts[adt]["file"], detail="shrinking/reordering operations on the list: %s" % (bad or "none"))
    from props import C12

    C12.rule_table_choice(chk, fb, "C11.c")
    rule_guard_scope(chk, fb, L, raw_field)
    rule_positions(chk, fb)
    rule_raw_first(chk, fb)
    from props import C02

    C02.rule_fresh_names(chk, fb, "C11.d")
    chk.assume("Vec/ThinVec push appends at the end and never moves existing elements")
    chk.note("not decided: equivalence of lazily and eagerly loaded content (value-level)")


def _with_closures(fb, d):
    from props.C07 import bodies_with_closures

    return bodies_with_closures(fb, d)


def _closure_over_raw(fb, d):
    """Is this closure applied to elements of the raw sheet list (parent passes it to an iterator over it)?"""
    parent = d.rsplit("::{closure", 1)[0]
    pb = fb.mir.get(parent)
    if not pb:
        return False
    fl = Flow(fb, pb)
    for bi, t in fl.calls():
        for a in t["args"][1:]:
            if any(x[0] == "cfn" and x[1] == d for x in fl.atoms(a)):
                at = fl.atoms(t["args"][0])
                if ("field", SP, "work_sheet_collection") in at or any(x[0] == "call" and x[1].endswith("get_sheet_collection_no_check") for x in at):
                    return True
    return False
