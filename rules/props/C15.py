"""C15 — protection password hashes verify per ECMA-376; no clear-text password (structure only). Clauses a–e."""
from kernel import Interp, NotKernel, show, freeze
from mirq import Flow
from cfg import CFG
from props import C14

ROLES = ("algorithm_name", "salt_value", "spin_count", "hash_value")


def protect_fns(fb):
    """pub fns of helper::crypt taking (&str password, &mut <Protection struct>)."""
    out = []
    for d, b in sorted(fb.mir.items()):
        if b["kind"] == "Fn" and d.startswith("helper::crypt::") and b["argc"] == 2:
            t1, t2 = fb.ty(b["locals"][1]["t"]), fb.ty(b["locals"][2]["t"])
            if t1 == "&str" and t2.startswith("&mut structs::") and "Protection" in t2:
                out.append(d)
    return out


def field_effects(fb, setter):
    """What a method of a protection struct does to the struct's own fields: (fields it stores its argument in, fields
    it clears).  A field whose wrapper is handed something besides the reference to itself is stored into; one whose
    wrapper is called with nothing else (remove_value) or that is assigned a constant is cleared."""
    b = fb.mir.get(setter)
    if not b:
        return [], []
    adt = b.get("self_ty")
    refs = {}  # local holding &mut self.f -> f
    sets, clears = set(), set()
    for bl in b["blocks"]:
        for s in bl["s"]:
            if s["k"] != "assign":
                continue
            fl = [e["f"] for e in s["lhs"].get("pr", []) if isinstance(e, dict) and e.get("of") == adt]
            if fl:
                (clears if s["rv"]["k"] in ("const", "agg") or s["rv"].get("op", {}).get("c") is not None else sets).add(fl[0])
            if s["rv"]["k"] == "ref" and s["rv"].get("mut"):
                fr = [e["f"] for e in s["rv"]["place"].get("pr", []) if isinstance(e, dict) and e.get("of") == adt]
                if fr and not s["lhs"].get("pr"):
                    refs[s["lhs"]["l"]] = fr[0]
    # reborrows / moves of those references
    changed = True
    while changed:
        changed = False
        for bl in b["blocks"]:
            for s in bl["s"]:
                if s["k"] == "assign" and not s["lhs"].get("pr") and s["lhs"]["l"] not in refs:
                    src = s["rv"].get("op", {}).get("p") or (s["rv"].get("place") if s["rv"]["k"] == "ref" else None)
                    if src and src.get("l") in refs and all(e == "deref" for e in src.get("pr", [])):
                        refs[s["lhs"]["l"]] = refs[src["l"]]
                        changed = True
    for _, t in fb.calls_in(b):
        args = t.get("args", [])
        if not args:
            continue
        a0 = args[0].get("p", {})
        if a0.get("l") in refs and not a0.get("pr"):
            (sets if len(args) > 1 else clears).add(refs[a0["l"]])
    return sorted(sets), sorted(clears - sets)


def run(chk, fb, tier):
    fns = protect_fns(fb)
    chk.rule("C15.anchor", "protection-hash entry points located by role (password, &mut protection object)", floor=3)
    for d in fns:
        chk.ob("C15.anchor", "entry:%s" % d, True, where=fb.loc(d), nontrivial=False)
    ra = chk.rule("C15.a", "no clear text: the password parameter reaches the protection object only through the hash function", floor=3)
    rb = chk.rule("C15.b", "the legacy raw-password attribute of the same family is removed on every path", floor=3)
    rc = chk.rule("C15.c", "family consistency: each entry point assigns exactly the algorithm-name, salt, spin-count and hash fields of ONE family and clears that family's raw password; the three entry points cover three distinct families", floor=12)
    rd = chk.rule("C15.d", "stored parameters are the ones used: the stored salt is the base64 of the very salt fed to the hash, the stored spin count and algorithm name are the ones passed to it, the stored hash is the base64 of its result; the salt comes from its own random call", floor=12)
    families = {}
    hashers = set()
    for d in fns:
        b = fb.mir[d]
        chk.touch(d)
        impure = lambda fn: fb.mir.get(fn) is not None and any("getrandom" in t.get("fn", "") for _, t in fb.calls_in(fb.mir[fn]))
        # private, loop-free helpers of the module that merely package the steps are looked into; the hasher (loops) and the
        # random source stay opaque
        it = Interp(fb, inline=lambda fn: fn.startswith("helper::crypt::") and fb.mir.get(fn, {}).get("vis") != "pub" and not impure(fn) and not fn.endswith(("::hash", "::hmac")))
        it.impure = impure
        try:
            paths = list(it.run(d, [("arg", i + 1) for i in range(b["argc"])]))
        except NotKernel as e:
            chk.ob(rd, "%s:normal-form" % d, False, where=fb.loc(d), detail="not a kernel: %s" % e)
            continue
        obj_ty = fb.ty(b["locals"][2]["t"]).replace("&mut ", "")
        sets = {}
        clears = []
        pw_leak = []
        for fn, args, conds in it.events:
            cb = fb.mir.get(fn)
            if not cb or cb.get("self_ty") != obj_ty or not args or args[0] != ("arg", 2):
                continue
            fsets, fclears = field_effects(fb, fn)
            if len(args) == 1:
                fclears, fsets = fclears + fsets, []
            for f in fclears:
                clears.append((f, fn, conds))
            for f in fsets:
                sets[f] = (fn, args[1], conds)
                if _mentions(args[1], ("arg", 1)) and not _through_hash(args[1]):
                    pw_leak.append(f)
        chk.ob(ra, "%s:no-clear-text" % d, not pw_leak, where=fb.loc(d), detail="fields assigned directly from the password: %s" % (pw_leak or "none"))
        # family
        by_role = {}
        prefixes = set()
        for f in sets:
            for r in ROLES:
                if f.endswith(r):
                    by_role[r] = f
                    prefixes.add(f[: -len(r)])
        for r in ROLES:
            chk.ob(rc, "%s:sets(%s)" % (d, r), r in by_role, where=fb.loc(d), detail="field for %s: %s" % (r, by_role.get(r, "not assigned")))
        one = len(prefixes) == 1
        chk.ob(rc, "%s:one-family" % d, one, where=fb.loc(d), detail="fields assigned: %s (family prefixes %s)" % (sorted(sets), sorted(prefixes)))
        fam = (obj_ty, next(iter(prefixes)) if one else "?")
        families.setdefault(fam, []).append(d)
        raw = [c for c in clears if c[0] == fam[1] + "password"]
        uncond = [c for c in raw if not c[2]]
        chk.ob(rb, "%s:raw-removed" % d, bool(uncond), where=fb.loc(d), detail="clears %s unconditionally: %s (clears: %s)" % (fam[1] + "password", bool(uncond), [c[0] for c in clears]))
        # stored == used
        hv = sets.get(by_role.get("hash_value", ""), (None, None))[1]
        sv = sets.get(by_role.get("salt_value", ""), (None, None))[1]
        sc = sets.get(by_role.get("spin_count", ""), (None, None))[1]
        an = sets.get(by_role.get("algorithm_name", ""), (None, None))[1]
        hcall = _find_call(hv, lambda t: t[1] in fb.mir and any(x.get("fn", "").endswith("crypt::hash") for _, x in fb.calls_in(fb.mir[t[1]])))
        ok = hcall is not None and hv[0] == "call" and hv[1].endswith("encode")
        chk.ob(rd, "%s:hash-stored" % d, ok, where=fb.loc(d), detail="stored hash = %s" % (show(hv)[:140] if hv else "none"))
        if hcall is None:
            continue
        hashers.add(hcall[1])
        hargs = hcall[2]
        pw, alg, salt, spin = (hargs + (None,) * 4)[:4]
        chk.ob(rd, "%s:password-hashed" % d, pw == ("arg", 1), where=fb.loc(d), detail="hash input password = %s" % show(pw))
        ok = sv is not None and sv[0] == "call" and sv[1].endswith("encode") and any(freeze(x) == freeze(salt) for x in sv[2])
        chk.ob(rd, "%s:salt-stored" % d, ok, where=fb.loc(d), detail="stored salt = %s; salt used = %s" % (show(sv)[:100] if sv else None, show(salt)[:60]))
        fresh = salt is not None and salt[0] == "call" and len(salt) > 3 and it.impure(salt[1])
        chk.ob(rd, "%s:salt-fresh" % d, fresh, where=fb.loc(d), detail="salt = %s" % show(salt))
        ok = sc is not None and _same_value(sc, spin)
        chk.ob(rd, "%s:spin-stored" % d, ok, where=fb.loc(d), detail="stored spin count = %s; used = %s" % (show(sc) if sc else None, show(spin)))
        ok = an is not None and freeze(_strip_into(an)) == freeze(alg)
        chk.ob(rd, "%s:algorithm-stored" % d, ok, where=fb.loc(d), detail="stored algorithm = %s; used = %s" % (show(an) if an else None, show(alg)))
    chk.ob(rc, "families-distinct", len(families) == len(fns) and all(len(v) == 1 for v in families.values()), where="src/helper/crypt.rs", detail="families: %s" % {str(k): [x.split("::")[-1] for x in v] for k, v in families.items()})
    re_ = chk.rule("C15.e", "chain shape: H0 = H(salt || UTF-16LE(password)); Hi = H(Hi-1 || LE32(i)) inside the spin loop (ECMA-376 Part 1, 18.2.29)", floor=2)
    for h in sorted(hashers):
        C14.rule_chain(chk, fb, re_, h, C14.OC.PASSWORD_HASH_CHAIN, "password-hash")
        # little-endian UTF-16: to_le_bytes on encode_utf16 units
        b = fb.mir[h]
        pw = next((i for i in range(1, b["argc"] + 1) if fb.ty(b["locals"][i]["t"]) == "&str" and b["locals"][i].get("n") == "password"), 1)
        le, chars = C14.utf16le_encoded(fb, h, pw)
        cut = C14.password_cut(fb, h, pw)
        chk.ob(re_, "password-hash:whole-password", not cut, where=fb.loc(h), detail="every UTF-16 unit of the password enters the first hash: nothing between the parameter and the byte buffer shortens or rewrites it (%s)" % (cut or "none found"))
        chk.ob(re_, "password-hash:utf16le", le and not chars, where=fb.loc(h), detail="password is hashed as UTF-16 little-endian code units (encode_utf16 + to_le_bytes, here or in a helper): %s; per-char conversion: %s" % (le, chars))
    C14.rule_password_passthrough(chk, fb, "C15.f", ["helper::crypt::encrypt_sheet_protection", "helper::crypt::encrypt_workbook_protection", "helper::crypt::encrypt_revisions_protection"], 3)
    import symmetry

    symmetry.rule_accessor_keeps_state(chk, fb, "C15.h", floor=150)
    C14.rule_digest_whole_input(chk, fb, "C15.i")
    symmetry.rule_attr_fields(chk, fb, "C15.g", only=[a for a in fb.adts if a.split("::")[-1] in ("SheetProtection", "WorkbookProtection")], floor=20)
    chk.assume("sha2 implements SHA-512; base64 STANDARD engine is RFC 4648 base64")
    chk.note("not decided: the hash value itself; persistence through save/reload is the reader/writer symmetry rule of C04.b/C06.b")


def _mentions(t, x):
    if t == x:
        return True
    if isinstance(t, tuple):
        return any(_mentions(y, x) for y in t)
    return False


def _through_hash(t):
    return _find_call(t, lambda c: "convert_password_to_hash" in c[1] or c[1].endswith("crypt::hash")) is not None


def _find_call(t, pred):
    if isinstance(t, tuple):
        if t and t[0] == "call" and pred(t):
            return t
        for y in t:
            r = _find_call(y, pred)
            if r is not None:
                return r
    return None


def _strip_into(t):
    while isinstance(t, tuple) and t and t[0] == "call" and t[1].split("::")[-1] in ("into", "to_string", "to_owned", "from") and t[2]:
        t = t[2][0]
    return t


def _same_value(stored, used):
    # stored may be a cast/into of the same constant or local
    s = _strip_into(stored)
    return freeze(s) == freeze(used) or (s[0] == "const" and used is not None and used[0] == "const" and s[1] == used[1])
