"""Fact base: runs the rustc_private extractor over the repository's current working tree
(cached by a hash of the sources) and offers indexed access to items / MIR / HIR facts."""
import fcntl
import hashlib
import json
import os
import shutil
import subprocess
import sys
import time

VERIF = os.path.dirname(os.path.dirname(os.path.abspath(__file__)))
REPO = os.environ.get("UMYA_REPO", "/repo")
CACHE = os.environ.get("UMYA_CACHE", os.path.join(VERIF, ".cache"))
DRIVER = os.path.join(VERIF, "facts", "target", "release", "umya-facts")
CRATE = "umya_spreadsheet"


def _sha_tree(h, root, sub):
    base = os.path.join(root, sub)
    if os.path.isfile(base):
        h.update(sub.encode())
        with open(base, "rb") as f:
            h.update(hashlib.sha256(f.read()).digest())
        return
    for d, dirs, files in sorted(os.walk(base)):
        dirs.sort()
        for fn in sorted(files):
            p = os.path.join(d, fn)
            h.update(os.path.relpath(p, root).encode())
            with open(p, "rb") as f:
                h.update(hashlib.sha256(f.read()).digest())


def source_hash(repo, config):
    h = hashlib.sha256()
    h.update(json.dumps(config, sort_keys=True).encode())
    with open(DRIVER, "rb") as f:
        h.update(hashlib.sha256(f.read()).digest())
    for sub in ("Cargo.toml", "Cargo.lock", "src"):
        if os.path.exists(os.path.join(repo, sub)):
            _sha_tree(h, repo, sub)
    if config.get("all_targets"):
        for d, dirs, files in sorted(os.walk(os.path.join(repo, "tests"))):
            dirs.sort()
            for fn in sorted(files):
                if fn.endswith(".rs"):
                    p = os.path.join(d, fn)
                    h.update(os.path.relpath(p, repo).encode())
                    with open(p, "rb") as f:
                        h.update(f.read())
    return h.hexdigest()[:24]


def ensure_driver():
    if not os.path.exists(DRIVER):
        subprocess.run(
            ["cargo", "+nightly", "build", "--release", "--offline"],
            cwd=os.path.join(VERIF, "facts"),
            check=True,
            stdout=subprocess.DEVNULL,
            stderr=subprocess.DEVNULL,
        )
    if not os.path.exists(DRIVER):
        raise RuntimeError("fact extractor could not be built")


def _sysroot():
    return subprocess.check_output(["rustc", "+nightly", "--print", "sysroot"], text=True).strip()


def extract(repo=None, all_targets=False, features=None, crate=CRATE, log=None):
    """Run (or reuse) an extraction. Returns the directory holding the fact files."""
    repo = repo or REPO
    ensure_driver()
    config = {"all_targets": all_targets, "features": features or [], "crate": crate, "v": 3}
    os.makedirs(os.path.join(CACHE, "facts"), exist_ok=True)
    lock = open(os.path.join(CACHE, "extract.lock"), "w")
    fcntl.flock(lock, fcntl.LOCK_EX)
    try:
        key = source_hash(repo, config)
        out = os.path.join(CACHE, "facts", key)
        stamp = os.path.join(out, "OK")
        if os.path.exists(stamp):
            return out
        if os.path.exists(out):
            shutil.rmtree(out)
        os.makedirs(out)
        target = os.path.join(CACHE, "target")
        os.makedirs(target, exist_ok=True)
        # defeat cargo's freshness cache for the workspace member: the wrapper must run
        for prof in ("debug",):
            fp = os.path.join(target, prof, ".fingerprint")
            if os.path.isdir(fp):
                for d in os.listdir(fp):
                    if d.startswith("umya-spreadsheet-") or d.startswith("umya_spreadsheet-"):
                        shutil.rmtree(os.path.join(fp, d), ignore_errors=True)
        nonce = hashlib.sha256(f"{time.time()}-{os.getpid()}".encode()).hexdigest()[:16]
        env = dict(os.environ)
        env.update(
            {
                "LD_LIBRARY_PATH": _sysroot() + "/lib",
                "RUSTFLAGS": "-Zmir-opt-level=0 -Awarnings",
                "RUSTC_WORKSPACE_WRAPPER": DRIVER,
                "CARGO_TARGET_DIR": target,
                "CARGO_NET_OFFLINE": "true",
                "UMYA_FACTS_OUT": out,
                "UMYA_FACTS_NONCE": nonce,
                "UMYA_FACTS_CRATE": crate + (",integration_test" if all_targets else ""),
            }
        )
        cmd = ["cargo", "+nightly", "check", "--offline"]
        cmd += ["--all-targets"] if all_targets else ["--lib"]
        if features:
            cmd += ["--features", ",".join(features)]
        t0 = time.time()
        p = subprocess.run(cmd, cwd=repo, env=env, stdout=subprocess.PIPE, stderr=subprocess.STDOUT, text=True)
        if p.returncode != 0:
            sys.stderr.write(p.stdout[-6000:])
            raise RuntimeError("fact extraction failed: cargo check did not succeed on %s" % repo)
        items = os.path.join(out, crate + ".items.json")
        if not os.path.exists(items):
            raise RuntimeError("fact extraction produced no fact file (wrapper skipped?)")
        with open(items) as f:
            got = json.load(f)["nonce"]
        if got != nonce:
            raise RuntimeError("stale fact file: nonce mismatch")
        with open(stamp, "w") as f:
            json.dump({"wall_s": time.time() - t0, "cmd": cmd, "repo": repo, "key": key}, f)
        # keep the cache small: drop all but the 16 most recent extractions (parallel scratch-tree runs must not evict each other)
        base = os.path.join(CACHE, "facts")
        ds = sorted((os.path.getmtime(os.path.join(base, d)), d) for d in os.listdir(base))
        for _, d in ds[:-16]:
            shutil.rmtree(os.path.join(base, d), ignore_errors=True)
        return out
    finally:
        fcntl.flock(lock, fcntl.LOCK_UN)
        lock.close()


class Facts:
    def __init__(self, outdir, crate=CRATE, test=False):
        self.dir = outdir
        stem = crate + (".test" if test else "")
        with open(os.path.join(outdir, stem + ".items.json")) as f:
            self.items = json.load(f)
        self.types = self.items["types"]
        self.key = os.path.basename(outdir)
        self.mir = {}
        with open(os.path.join(outdir, stem + ".mir.jsonl")) as f:
            for line in f:
                b = json.loads(line)
                self.mir[b["def"]] = b
        self.hir = {}
        self.hir_consts = {}
        with open(os.path.join(outdir, stem + ".hir.jsonl")) as f:
            for line in f:
                b = json.loads(line)
                if b.get("kind") in ("Fn", "AssocFn"):
                    self.hir[b["def"]] = b
                else:
                    self.hir_consts[b["def"]] = b  # initialisers of const / static items
        self.adts = {a["path"]: a for a in self.items["adts"]}
        self.impls = self.items["impls"]
        self.traits = {t["path"]: t for t in self.items["traits"]}
        self.consts = {c["path"]: c for c in self.items["consts"]}
        self._callers = None
        self._callees = None

    # ---- helpers -------------------------------------------------------------------
    def ty(self, i):
        return self.types[i]

    def fn(self, path):
        return self.mir.get(path)

    def fns_matching(self, pred):
        return [b for b in self.mir.values() if pred(b)]

    def struct_fields(self, path):
        a = self.adts[path]
        return [f["name"] for f in a["variants"][0]["fields"]]

    def field_types(self, path):
        a = self.adts[path]
        return {f["name"]: f["ty"] for f in a["variants"][0]["fields"]}

    def enum_variants(self, path):
        return [v["name"] for v in self.adts[path]["variants"]]

    def impls_of(self, trait):
        return [i for i in self.impls if i.get("trait") == trait]

    def impl_for(self, trait, self_adt):
        for i in self.impls:
            if i.get("trait") == trait and i.get("self_adt") == self_adt:
                return i
        return None

    def has_derive(self, adt, trait):
        for i in self.impls:
            if i.get("trait") == trait and i.get("self_adt") == adt and i.get("derived"):
                return True
        return False

    def calls_in(self, body):
        """Yield (block index, terminator) for every call terminator of a MIR body."""
        for bi, bl in enumerate(body["blocks"]):
            t = bl["t"]
            if t["k"] in ("call", "tailcall"):
                yield bi, t

    def _build_callgraph(self):
        callers = {}
        callees = {}
        for d, b in self.mir.items():
            cs = set()
            for bi, t in self.calls_in(b):
                f = t.get("fn")
                if f:
                    cs.add(f)
                    callers.setdefault(f, []).append((d, bi))
                # function items passed as values (map(f), for_each(f)) and closures created here
                for a in t.get("args", []):
                    if "cfn" in a:
                        cs.add(a["cfn"])
                        callers.setdefault(a["cfn"], []).append((d, bi))
            for bl in b["blocks"]:
                for s in bl["s"]:
                    if s["k"] == "assign":
                        rv = s["rv"]
                        if rv["k"] == "agg" and rv.get("ak") == "closure":
                            cs.add(rv["closure"])
                            callers.setdefault(rv["closure"], []).append((d, -1))
                        for op in _rv_operands(rv):
                            if "cfn" in op:
                                cs.add(op["cfn"])
                                callers.setdefault(op["cfn"], []).append((d, -1))
            callees[d] = cs
        self._callers, self._callees = callers, callees

    @property
    def callers(self):
        if self._callers is None:
            self._build_callgraph()
        return self._callers

    @property
    def callees(self):
        if self._callees is None:
            self._build_callgraph()
        return self._callees

    def reachable_from(self, roots, stop=None):
        """Transitive closure of the resolved call graph (including closures created)."""
        seen = set()
        work = list(roots)
        while work:
            d = work.pop()
            if d in seen:
                continue
            seen.add(d)
            if stop and stop(d):
                continue
            for c in self.callees.get(d, ()):
                if c not in seen:
                    work.append(c)
        return seen

    def loc(self, d, line=None):
        b = self.mir.get(d) or self.hir.get(d)
        if not b:
            return d
        return "%s:%s" % (b["file"], line if line is not None else b["line"])


def _rv_operands(rv):
    k = rv["k"]
    if k in ("use", "repeat", "cast"):
        return [rv["op"]]
    if k == "bin":
        return [rv["a"], rv["b"]]
    if k == "un":
        return [rv["a"]]
    if k == "agg":
        return rv["ops"]
    return []


rv_operands = _rv_operands

_loaded = {}


def load(repo=None, all_targets=False, features=None, test=False):
    out = extract(repo=repo, all_targets=all_targets, features=features)
    k = (out, test)
    if k not in _loaded:
        _loaded[k] = Facts(out, test=test)
    return _loaded[k]
