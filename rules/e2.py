"""E2 — field coverage: which fields of a struct does a function read (directly, through closures it
creates, and through methods of the same struct it calls)?"""


def direct_fields(body, adt):
    out = set()
    for bl in body["blocks"]:
        for s in bl["s"]:
            if s["k"] != "assign":
                continue
            for p in _places_of_rv(s["rv"]):
                for e in p.get("pr", []):
                    if isinstance(e, dict) and e.get("of") == adt and "f" in e:
                        out.add(e["f"])
        t = bl["t"]
        ops = []
        if t["k"] in ("call", "tailcall"):
            ops = t.get("args", [])
        elif t["k"] == "switch":
            ops = [t["op"]]
        for o in ops:
            if "p" in o:
                for e in o["p"].get("pr", []):
                    if isinstance(e, dict) and e.get("of") == adt and "f" in e:
                        out.add(e["f"])
    return out


def _places_of_rv(rv):
    k = rv["k"]
    if k in ("ref", "rawptr", "discr"):
        return [rv["place"]]
    out = []
    for key in ("op", "a", "b"):
        o = rv.get(key)
        if isinstance(o, dict) and "p" in o:
            out.append(o["p"])
    for o in rv.get("ops", []):
        if "p" in o:
            out.append(o["p"])
    return out


def fields_read(fb, fn, adt, depth=0, seen=None):
    seen = seen if seen is not None else set()
    if fn in seen or depth > 4:
        return set()
    seen.add(fn)
    b = fb.mir.get(fn)
    if not b:
        return set()
    out = direct_fields(b, adt)
    for bl in b["blocks"]:
        for s in bl["s"]:
            if s["k"] == "assign" and s["rv"]["k"] == "agg" and s["rv"].get("ak") == "closure":
                out |= fields_read(fb, s["rv"]["closure"], adt, depth, seen)
        t = bl["t"]
        if t["k"] == "call":
            f = t.get("fn", "")
            cb = fb.mir.get(f)
            if cb and (cb.get("self_ty") == adt or cb["kind"] == "Closure"):
                out |= fields_read(fb, f, adt, depth + 1, seen)
            for a in t.get("args", []):
                if "cfn" in a and a["cfn"] in fb.mir:
                    cb2 = fb.mir[a["cfn"]]
                    if cb2.get("self_ty") == adt or cb2["kind"] == "Closure":
                        out |= fields_read(fb, a["cfn"], adt, depth + 1, seen)
    return out
