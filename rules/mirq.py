"""Queries over a MIR body (E4): definitions, backward slices, atoms a value derives from."""
from facts import rv_operands


def place_root(p):
    return p["l"]


def place_fields(p):
    return [(e["of"], e["f"]) for e in p.get("pr", []) if isinstance(e, dict) and "f" in e]


def is_local(p):
    return not p.get("pr")


class Flow:
    """Flow-insensitive def-use over one MIR body. MIR temporaries are almost always
    single-assignment, so this is close to exact; where a user variable is assigned more than
    once the union of its definitions is used (an over-approximation of dependence)."""

    def __init__(self, facts, body, mutcalls=False):
        self.facts = facts
        self.body = body
        self.defs = {}  # local -> list of ("rv", bi, si, rv) | ("call", bi, term) | ("mutcall", bi, term)
        nloc = len(body["locals"])
        self.argc = body["argc"]
        for bi, bl in enumerate(body["blocks"]):
            for si, s in enumerate(bl["s"]):
                if s["k"] == "assign":
                    l = s["lhs"]["l"]
                    self.defs.setdefault(l, []).append(("rv", bi, si, s["rv"], s["lhs"]))
            t = bl["t"]
            if t["k"] == "call":
                l = t["dest"]["l"]
                self.defs.setdefault(l, []).append(("call", bi, None, t, t["dest"]))
        # calls that receive a &mut to (part of) a local mutate that local
        self.ref_of = {}  # local holding a reference -> (root local, place)
        for l, ds in self.defs.items():
            if len(ds) == 1 and ds[0][0] == "rv":
                rv = ds[0][3]
                if rv["k"] == "ref" and is_local(ds[0][4]):
                    self.ref_of[l] = rv["place"]
                elif rv["k"] == "use" and "p" in rv["op"] and is_local(ds[0][4]):
                    pass
        for bi, bl in enumerate(body["blocks"] if mutcalls else []):
            t = bl["t"]
            if t["k"] != "call":
                continue
            for a in t["args"]:
                if "p" not in a:
                    continue
                al = a["p"]["l"]
                ty = facts.ty(body["locals"][al]["t"])
                if ty.startswith("&mut ") and not a["p"].get("pr"):
                    tgt = self.deref_root(al)
                    # &mut obtained through deref_mut / as_mut / index_mut of another local
                    hops = 0
                    while hops < 3:
                        ds = self.defs.get(tgt, [])
                        if len(ds) == 1 and ds[0][0] == "call" and ds[0][3].get("fn", "").split("::")[-1] in ("deref_mut", "as_mut", "as_mut_slice", "index_mut", "borrow_mut", "iter_mut") and ds[0][3]["args"] and "p" in ds[0][3]["args"][0]:
                            tgt = self.deref_root(ds[0][3]["args"][0]["p"]["l"])
                            hops += 1
                        else:
                            break
                    if tgt is not None and tgt != al:
                        self.defs.setdefault(tgt, []).append(("mutcall", bi, None, t, {"l": tgt}))

    def deref_root(self, l, depth=0):
        """Follow `_a = &mut _b` / `_a = &mut *_b` / `_a = move _b` chains to the root local."""
        seen = set()
        while l in self.ref_of or self._single_use(l) is not None:
            if l in seen:
                break
            seen.add(l)
            if l in self.ref_of:
                l = self.ref_of[l]["l"]
            else:
                l = self._single_use(l)
        return l

    def _single_use(self, l):
        ds = self.defs.get(l, [])
        if len(ds) == 1 and ds[0][0] == "rv":
            rv = ds[0][3]
            if rv["k"] == "use" and "p" in rv["op"] and is_local(ds[0][4]):
                return rv["op"]["p"]["l"]
        return None

    def local_name(self, l):
        return self.body["locals"][l].get("n")

    def local_ty(self, l):
        return self.facts.ty(self.body["locals"][l]["t"])

    def atoms(self, op, through_calls=True, stop_calls=None, _seen=None):
        """Set of atoms an operand (or a local index) may derive from:
        ("arg", i) | ("const", repr) | ("call", fn, bi) | ("field", adt, name) | ("cfn", path)"""
        out = set()
        seen = _seen if _seen is not None else set()
        work = []

        def push_op(o):
            if "p" in o:
                push_place(o["p"])
            elif "cfn" in o:
                out.add(("cfn", o["cfn"]))
            elif "cclosure" in o:
                out.add(("cfn", o["cclosure"]))
            elif "promoted" in o:
                pv = self.body.get("promoted", [])
                i = o["promoted"]
                if i < len(pv) and pv[i]:
                    for c in pv[i]:
                        v = c.get("s", c.get("i", c.get("c")))
                        out.add(("const", v if not isinstance(v, list) else str(v)))
                else:
                    out.add(("const", o.get("c")))
            else:
                v = o.get("s", o.get("i", o.get("c")))
                out.add(("const", v if not isinstance(v, list) else str(v)))

        def push_place(p):
            base_ty = self.facts.ty(self.body["locals"][p["l"]]["t"])
            checked = base_ty.endswith(", bool)") and base_ty.count(",") == 1  # (T, bool) of checked arithmetic
            for of, f in place_fields(p):
                if checked and of == "tuple":
                    continue
                out.add(("field", of, f))
            for e in p.get("pr", []):
                if isinstance(e, dict) and "idx" in e:
                    work.append(e["idx"])
            # field-sensitive step: component i of a tuple local that is built once, by a tuple aggregate, is operand i
            pr = p.get("pr", [])
            if pr and isinstance(pr[0], dict) and pr[0].get("of") == "tuple" and str(pr[0].get("f", "")).isdigit():
                ds = self.defs.get(p["l"], [])
                if len(ds) == 1 and ds[0][0] == "rv" and ds[0][3]["k"] == "agg" and ds[0][3].get("ak") == "tuple" and not ds[0][4].get("pr"):
                    ops = ds[0][3].get("ops", [])
                    i = int(pr[0]["f"])
                    if i < len(ops):
                        seen.add(p["l"]) if False else None
                        push_op(ops[i])
                        return
            work.append(p["l"])

        if isinstance(op, int):
            work.append(op)
        else:
            push_op(op)
        while work:
            l = work.pop()
            if l in seen:
                continue
            seen.add(l)
            if 1 <= l <= self.argc:
                out.add(("arg", l))
            for d in self.defs.get(l, []):
                kind, bi, si, x, lhs = d
                if kind == "rv":
                    rv = x
                    if rv["k"] in ("ref", "rawptr", "discr"):
                        push_place(rv["place"])
                    else:
                        for o in rv_operands(rv):
                            push_op(o)
                        if rv["k"] == "agg" and rv.get("ak") == "closure":
                            out.add(("cfn", rv["closure"]))
                else:
                    t = x
                    fn = t.get("fn", "?")
                    out.add(("call", fn, bi))
                    if stop_calls and stop_calls(fn):
                        continue
                    if through_calls:
                        for a in t["args"]:
                            push_op(a)
        return out

    def calls(self, pred=None):
        for bi, bl in enumerate(self.body["blocks"]):
            t = bl["t"]
            if t["k"] == "call" and (pred is None or pred(t)):
                yield bi, t

    def dest_used(self, bi):
        """Is the destination local of the call in block bi read anywhere?"""
        t = self.body["blocks"][bi]["t"]
        l = t["dest"]["l"]
        return self.local_read(l)

    def local_read(self, l):
        for bl in self.body["blocks"]:
            for s in bl["s"]:
                if s["k"] == "assign":
                    if _rv_reads(s["rv"], l):
                        return True
                    if s["lhs"]["l"] == l and s["lhs"].get("pr"):
                        pass
            t = bl["t"]
            if t["k"] == "call":
                for a in t["args"]:
                    if "p" in a and a["p"]["l"] == l:
                        return True
                if "fnop" in t and "p" in t["fnop"] and t["fnop"]["p"]["l"] == l:
                    return True
            elif t["k"] == "switch":
                if "p" in t["op"] and t["op"]["p"]["l"] == l:
                    return True
            elif t["k"] == "assert":
                if "p" in t["cond"] and t["cond"]["p"]["l"] == l:
                    return True
        if l == 0:
            return True
        return False


def _rv_reads(rv, l):
    k = rv["k"]
    if k in ("ref", "rawptr", "discr"):
        p = rv["place"]
        if p["l"] == l:
            return True
        return any(isinstance(e, dict) and e.get("idx") == l for e in p.get("pr", []))
    for o in rv_operands(rv):
        if "p" in o:
            if o["p"]["l"] == l:
                return True
            if any(isinstance(e, dict) and e.get("idx") == l for e in o["p"].get("pr", [])):
                return True
    return False


def const_of(op):
    if "s" in op:
        return op["s"]
    if "i" in op:
        return op["i"]
    return op.get("c")



def closure_captures(fb, d):
    """closure def -> per captured slot, the atoms (in the parent body d) of the captured operand."""
    b = fb.mir[d]
    fl = Flow(fb, b)
    out = {}
    for bl in b["blocks"]:
        for st in bl["s"]:
            if st["k"] == "assign" and st["rv"]["k"] == "agg" and st["rv"].get("ak") == "closure":
                out[st["rv"]["closure"]] = [fl.atoms(o, through_calls=False) for o in st["rv"].get("ops", [])]
    return out


def parent_args(fb, d, c, fl_c, op, caps):
    """Parameters of function d that operand `op` of body c (d itself or one of its closures) is taken from, seen
    through reference plumbing and closure captures only (no calls)."""
    at = fl_c.atoms(op, through_calls=False)
    if c == d:
        return sorted(x[1] for x in at if x[0] == "arg")
    out = set()
    for x in at:
        if x[0] == "field" and isinstance(x[1], str) and x[1].startswith("closure:") and str(x[2]).isdigit():
            slots = caps.get(c, [])
            if int(x[2]) < len(slots):
                out |= {y[1] for y in slots[int(x[2])] if y[0] == "arg"}
    return sorted(out)
