"""E1 — reader/writer symmetry: per struct, the attribute names and child-element names its reader
(set_attributes*) consumes vs the ones its writer (write_to*) emits. Typed HIR only."""
import hirq


def reader_fns(fb, adt):
    return [d for d, h in fb.hir.items() if h.get("self_ty") == adt and d.split("::")[-1].startswith("set_attributes")]


def writer_fns(fb, adt):
    return [d for d, h in fb.hir.items() if h.get("self_ty") == adt and d.split("::")[-1].startswith("write_to")]


def _bytes_or_str(n):
    n = hirq.strip(n)
    if n.get("k") == "lit" and n.get("lt") in ("bytes", "str"):
        return n["v"]
    if n.get("k") == "mcall" and n.get("name") in ("as_bytes", "as_ref", "as_str") :
        return _bytes_or_str(n["recv"])
    if n.get("k") == "path" and n.get("dk") == "Const":
        return None
    return None


def read_names(fb, d):
    """(attributes read, child elements dispatched on) in reader fn d."""
    h = fb.hir[d]
    attrs, elems = set(), set()
    for x in hirq.walk(h["body"]):
        k = x.get("k")
        if k == "call" and x.get("def", "").endswith("reader::driver::get_attribute") and len(x.get("args", [])) == 2:
            v = _bytes_or_str(x["args"][1])
            if v is not None:
                attrs.add(v)
        if k == "mcall" and x.get("name") in ("try_get_attribute",) and x.get("args"):
            v = _bytes_or_str(x["args"][0])
            if v is not None:
                attrs.add(v)
        if k == "match":
            sc = x["scrut"]
            sc_calls = [c.get("name") or c.get("def", "").split("::")[-1] for c in hirq.calls(sc)]
            sc_fields = [y.get("name") for y in hirq.walk(sc) if y.get("k") == "field"]
            lits = []
            for a in x["arms"]:
                ls = hirq.pat_literals(a["pat"])
                if ls:
                    lits += [l for l in ls if isinstance(l, str) and not l.startswith("path:")]
            if not lits:
                continue
            if "key" in sc_fields or "key" in sc_calls:
                attrs |= set(lits)
            elif "name" in sc_calls or "local_name" in sc_calls:
                elems |= set(lits)
        if k == "bin" and x.get("op") in ("==", "!="):
            # e.name().into_inner() == b"tag"   /   attr.key.0 == b"x"
            for a, b_ in ((x["l"], x["r"]), (x["r"], x["l"])):
                v = _bytes_or_str(b_)
                if v is None:
                    continue
                calls = [c.get("name") or "" for c in hirq.calls(a)]
                fields = [y.get("name") for y in hirq.walk(a) if y.get("k") == "field"]
                if "name" in calls or "local_name" in calls:
                    elems.add(v)
                elif "key" in fields or "key" in calls:
                    attrs.add(v)
        # guards in match arms: Ok(ref attr) if attr.key.0 == b"codeName"
    for x in hirq.walk(h["body"]):
        if x.get("k") is None and x.get("guard"):
            g = x["guard"]
            for y in hirq.walk(g):
                if y.get("k") == "bin" and y.get("op") == "==":
                    for a, b_ in ((y["l"], y["r"]), (y["r"], y["l"])):
                        v = _bytes_or_str(b_)
                        if v is not None and any(z.get("name") == "key" for z in hirq.walk(a) if z.get("k") == "field"):
                            attrs.add(v)
    return attrs, elems


def write_names(fb, d):
    """(attribute names written, element names written) in writer fn d."""
    h = fb.hir[d]
    attrs, elems = set(), set()
    for x in hirq.walk(h["body"]):
        k = x.get("k")
        if k == "tup" and len(x.get("es", [])) == 2:
            v = hirq.lit_value(x["es"][0])
            if isinstance(v, str) and hirq.strip(x["es"][0]).get("lt") == "str":
                attrs.add(v)
        if k == "call" and x.get("def", "").split("::")[-1] in ("write_start_tag", "write_end_tag") and len(x.get("args", [])) >= 2:
            v = hirq.lit_value(x["args"][1])
            if isinstance(v, str):
                elems.add(v)
    # attributes pushed through a local helper closure:  let mut push_if = |cond, name, value| { if cond { attributes.push((name, value)) } };
    helpers = {}
    for x in hirq.walk(h["body"]):
        if x.get("k") == "let" and x.get("init") and x["pat"].get("k") == "bind":
            c = hirq.strip(x["init"])
            if c.get("k") == "closure":
                plids = [p_.get("lid") for p_ in c.get("params", [])]
                name_pos = set()
                for y in hirq.walk(c["body"]):
                    if y.get("k") == "tup" and len(y.get("es", [])) == 2:
                        f0 = hirq.strip(y["es"][0])
                        if f0.get("k") == "path" and f0.get("lid") in plids:
                            name_pos.add(plids.index(f0["lid"]))
                if name_pos:
                    helpers[x["pat"].get("lid")] = name_pos
    if helpers:
        for x in hirq.walk(h["body"]):
            if x.get("k") == "call" and not x.get("def") and x.get("lid") in helpers:
                for i in helpers[x["lid"]]:
                    if i < len(x.get("args", [])):
                        v = hirq.lit_value(x["args"][i])
                        if isinstance(v, str):
                            attrs.add(v)
    return attrs, elems


def struct_tables(fb, adt):
    ra, re_, wa, we = set(), set(), set(), set()
    rf, wf = reader_fns(fb, adt), writer_fns(fb, adt)
    for d in rf:
        a, e = read_names(fb, d)
        ra |= a
        re_ |= e
    for d in wf:
        a, e = write_names(fb, d)
        wa |= a
        we |= e
    return {"reader": rf, "writer": wf, "read_attrs": ra, "read_elems": re_, "written_attrs": wa, "written_elems": we}


def both_sided(fb):
    out = []
    for adt, a in fb.adts.items():
        if a["kind"] != "struct":
            continue
        if reader_fns(fb, adt) and writer_fns(fb, adt):
            out.append(adt)
    return sorted(out)


def rule_enum_tables(chk, fb, rid):
    """Writer / reader tables of every attribute enum agree: the string written for a variant is read back as that variant."""
    r = chk.rule(
        rid,
        "enum tables agree: for every enum with a to-string table (EnumTrait::get_value_string) and a from-string table (FromStr::from_str), the literal written for each variant is accepted by from_str and maps back to the same variant",
        floor=300,
    )
    W, R = enum_tables(fb)
    for adt in sorted(W):
        if adt not in R:
            continue
        chk.touch(*[d for d in fb.hir if fb.hir[d].get("self_ty") == adt and d.split("::")[-1] in ("get_value_string", "from_str")])
        for variant, (lit, where) in sorted(W[adt].items()):
            back = R[adt].get(lit)
            ok = lit is not None and back == variant
            chk.ob(r, "%s::%s" % (adt.split("::")[-1], variant.split("::")[-1]), ok, where=where,
                   detail="written as %r; from_str(%r) gives %s" % (lit, lit, back.split("::")[-1] if back else "no match (the attribute is dropped or falls back to the default)"))


def enum_tables(fb):
    """(W, R): W[enum][variant path] = (literal, where); R[enum][literal] = variant path."""
    import hirq

    W, R = {}, {}
    for d, h in fb.hir.items():
        if d.endswith("::get_value_string") and "EnumTrait" in d:
            for m, rows in hirq.match_tables(h["body"]):
                for ls, arm in rows:
                    body = hirq.strip(arm["body"])
                    if body.get("k") == "block" and body.get("expr") and not body.get("stmts"):
                        body = hirq.strip(body["expr"])
                    v = body.get("v") if body.get("k") == "lit" and body.get("lt") == "str" else None
                    for l in ls or []:
                        if isinstance(l, str) and l.startswith("path:"):
                            W.setdefault(h.get("self_ty"), {})[l[5:]] = (v, "%s:%s" % (h["file"], arm.get("ln", h.get("line"))))
        if d.endswith("::from_str") and "FromStr" in d:
            for m, rows in hirq.match_tables(h["body"]):
                for ls, arm in rows:
                    tgt = [y.get("def") for y in hirq.walk(arm["body"]) if y.get("k") in ("path", "call", "struct") and (y.get("def") or "").startswith((h.get("self_ty") or "?") + "::")]
                    for l in ls or []:
                        if isinstance(l, str) and not l.startswith("path:"):
                            R.setdefault(h.get("self_ty"), {})[l] = tgt[0] if tgt else None
    # table-driven impls: a const array of (Variant, "literal") pairs consulted by get_value_string / from_str
    import re

    for d, h in fb.hir.items():
        is_w = d.endswith("::get_value_string") and "EnumTrait" in d
        is_r = d.endswith("::from_str") and "FromStr" in d
        adt = h.get("self_ty")
        if not (is_w or is_r) or (is_w and adt in W) or (is_r and adt in R):
            continue
        for x in hirq.walk(h["body"]):
            if x.get("k") == "path" and x.get("dk") == "Const" and x.get("def") in fb.consts:
                c = fb.consts[x["def"]]
                txt = (c.get("value") or {}).get("c")
                if not isinstance(txt, str):
                    continue
                pairs = re.findall(r'\(([\w:]+::\w+), "((?:[^"\\]|\\.)*)"\)', txt)
                if not pairs:
                    continue
                for variant, lit in pairs:
                    if is_w:
                        W.setdefault(adt, {})[variant] = (lit, "%s:%s" % (c.get("file"), c.get("line")))
                    else:
                        R.setdefault(adt, {})[lit] = variant
    return W, R


def rule_enum_spec(chk, fb, rid, side):
    """The crate's attribute enums against the simple types of ECMA-376 (spec/ecma376.py SIMPLE_TYPES):
    side="write": every literal the library can write is a value of the simple type;
    side="read":  every value of the simple type is accepted by from_str."""
    import importlib.util
    import os

    spec = importlib.util.spec_from_file_location("ecma376", os.path.join(os.path.dirname(__file__), "..", "spec", "ecma376.py"))
    E = importlib.util.module_from_spec(spec)
    spec.loader.exec_module(E)
    text = {"write": "written enum literals are legal: every string an attribute enum of the listed simple types can be written as is a value of that ECMA-376 simple type",
            "read": "the reader knows the standard's values: every value of the listed ECMA-376 simple types is accepted by the enum's from_str (an unknown value silently becomes the default)"}[side]
    r = chk.rule(rid, text, floor=15)
    W, R = enum_tables(fb)
    for name, (st, vals) in sorted(E.SIMPLE_TYPES.items()):
        cands = [a for a in W if a.split("::")[-1] == name and a.count("::") == 2]  # top-level structs::<file>::<Name> (SpreadsheetML, not DrawingML)
        if not cands:
            chk.ob(r, "%s:found" % name, False, detail="enum for %s not found" % st)
            continue
        adt = cands[0]
        if side == "write":
            bad = sorted(l for v, (l, w) in W[adt].items() if l not in vals)
            chk.ob(r, "%s:writes" % name, not bad, where=fb.adts[adt]["file"] if adt in fb.adts else "", detail="%s: literals outside the simple type: %s" % (st, bad or "none"))
        else:
            miss = sorted(v for v in vals if v not in R.get(adt, {}))
            chk.ob(r, "%s:reads" % name, not miss, where=fb.adts[adt]["file"] if adt in fb.adts else "", detail="%s: values the reader does not accept: %s" % (st, miss or "none"))


def rule_omitted_defaults(chk, fb, rid, exclude=()):
    """An attribute may be left out when its value is what the reader assumes for an absent attribute. If the writer
    leaves it out for a particular enum variant, that variant has to be the enum's own Default (the reader's fallback) -
    the schema's default is irrelevant to a round trip."""
    import hirq

    r = chk.rule(
        rid,
        "omitted attributes come back: wherever a struct writer pushes an attribute only if an enum-valued field differs from (or equals) a particular variant, the variant for which the attribute is omitted is the enum's Default",
        floor=0,
    )
    defaults = {}
    for d, b in fb.mir.items():
        if d.endswith(" as std::default::Default>::default") and d.startswith("<"):
            adt = d[1:].split(" as ")[0]
            for bl in b["blocks"]:
                for st in bl["s"]:
                    if st["k"] == "assign" and st["lhs"]["l"] == 0 and st["rv"]["k"] == "agg" and st["rv"].get("adt") == adt:
                        defaults[adt] = st["rv"].get("variant")
    n = 0
    for d, h in sorted(fb.hir.items()):
        if not d.split("::")[-1].startswith("write_to") or d.split("::")[-2] in exclude:
            continue
        for x in hirq.walk(h["body"]):
            if x.get("k") != "if":
                continue
            pushes = [hirq.lit_value(y["es"][0]) for y in hirq.walk(x["then"]) if y.get("k") == "tup" and len(y.get("es", [])) == 2 and isinstance(hirq.lit_value(y["es"][0]), str)]
            else_pushes = [hirq.lit_value(y["es"][0]) for y in hirq.walk(x["else"]) if y.get("k") == "tup" and len(y.get("es", [])) == 2 and isinstance(hirq.lit_value(y["es"][0]), str)] if x.get("else") else []
            if not pushes and not else_pushes:
                continue
            c = hirq.strip(x["cond"])
            neg = False
            while c.get("k") == "un" and c.get("op") == "Not":
                neg = not neg
                c = hirq.strip(c["e"])
            variant = None
            if c.get("k") == "match" and c.get("mac") and c["mac"][0] == "matches":
                pats = [a["pat"] for a in c["arms"] if a["pat"].get("k") == "path" and a["pat"].get("dk") == "Ctor"]
                if len(pats) == 1 and any((cc.get("def") or "").endswith("::get_value") for cc in hirq.calls(c["scrut"])):
                    variant = pats[0].get("ctor_of") or pats[0].get("def")
            elif c.get("k") == "bin" and c.get("op") in ("==", "!="):
                for a_, b_ in ((c["l"], c["r"]), (c["r"], c["l"])):
                    pb = hirq.strip(b_)
                    while pb.get("k") == "ref":
                        pb = hirq.strip(pb["e"])
                    if pb.get("k") == "path" and pb.get("dk") == "Ctor" and any((cc.get("def") or "").endswith("::get_value") for cc in hirq.calls(a_)):
                        variant = pb.get("ctor_of") or pb.get("def")
                        if c["op"] == "!=":
                            neg = not neg
            if not variant:
                continue
            enum = variant.rsplit("::", 1)[0]
            # cond true <=> value == variant (neg flips). pushes happen in `then`: omitted when cond is false.
            omitted_for_variant = (pushes and neg) or (else_pushes and not neg)
            if not omitted_for_variant:
                continue
            dv = defaults.get(enum)
            ok = dv is not None and variant.endswith("::" + dv)
            chk.touch(d)
            chk.ob(r, "%s:%s" % ("::".join(d.split("::")[-2:]), (pushes or else_pushes)[0]), ok, where="%s:%s" % (h["file"], x.get("ln")),
                   detail="attribute `%s` is omitted when the value is %s; an absent attribute is read as %s::%s" % ((pushes or else_pushes)[0], variant.split("::")[-1], enum.split("::")[-1], dv))
            n += 1
    chk.ob(r, "scan", True, where="src/structs", detail="%d variant-conditioned attribute(s) found in struct writers" % n, nontrivial=False)


# ---------------------------------------------------------------------------------------------------------------------
# attribute <-> field agreement
def _self_fields(n, adt=None):
    """Names of the fields of `self` mentioned in n (first level: self.<f>)."""
    out = set()
    for y in hirq.walk(n):
        if y.get("k") == "field":
            b_ = hirq.strip(y.get("base", {}))
            if b_.get("k") == "path" and b_.get("local") == "self" and (adt is None or y.get("of") == adt):
                out.add(y["name"])
    return out


def _attr_of_get(n):
    n = hirq.strip(n)
    if n.get("k") == "call" and n.get("def", "").endswith("reader::driver::get_attribute") and len(n.get("args", [])) == 2:
        return _bytes_or_str(n["args"][1])
    return None


def reader_field_map(fb, d, adt):
    """attribute name -> fields of self written under the test that the attribute is present (recognised idioms only)."""
    h = fb.hir[d]
    out = {}
    bound = {}  # lid -> attr   (let v = get_attribute(e, b"x");)
    for x in hirq.walk(h["body"]):
        if x.get("k") == "let" and x.get("init") is not None and x["pat"].get("k") == "bind":
            a = _attr_of_get(x["init"])
            if a is not None:
                bound[x["pat"].get("lid")] = a

    def attr_of(n):
        a = _attr_of_get(n)
        if a is not None:
            return a
        n = hirq.strip(n)
        if n.get("k") == "path" and n.get("lid") in bound:
            return bound[n["lid"]]
        return None

    for x in hirq.walk(h["body"]):
        k = x.get("k")
        if k == "if" and x["cond"].get("k") == "letexpr":
            a = attr_of(x["cond"]["init"])
            if a is not None:
                out.setdefault(a, set()).update(_self_fields(x["then"], adt))
        elif k == "match":
            a = attr_of(x["scrut"])
            if a is not None:
                for arm in x["arms"]:
                    out.setdefault(a, set()).update(_self_fields(arm["body"], adt))
                continue
            sc = x["scrut"]
            sc_calls = [c.get("name") or c.get("def", "").split("::")[-1] for c in hirq.calls(sc)]
            sc_fields = [y.get("name") for y in hirq.walk(sc) if y.get("k") == "field"]
            if "key" in sc_fields or "key" in sc_calls:
                for arm in x["arms"]:
                    for l in hirq.pat_literals(arm["pat"]) or []:
                        if isinstance(l, str) and not l.startswith("path:"):
                            out.setdefault(l, set()).update(_self_fields(arm["body"], adt))
    return out


def writer_field_map(fb, d, adt):
    """attribute name -> fields of self the written value is computed from (through local bindings)."""
    h = fb.hir[d]
    lets = {}
    for x in hirq.walk(h["body"]):
        if x.get("k") == "let" and x.get("init") is not None and x["pat"].get("k") == "bind":
            lets[x["pat"].get("lid")] = x["init"]

    def fields_of(n, depth=0):
        fs = set(_self_fields(n, adt))
        if depth < 4:
            for y in hirq.walk(n):
                if y.get("k") == "path" and y.get("lid") in lets:
                    fs |= fields_of(lets[y["lid"]], depth + 1)
        return fs

    out = {}
    for x in hirq.walk(h["body"]):
        if x.get("k") == "tup" and len(x.get("es", [])) == 2:
            v = hirq.lit_value(x["es"][0])
            if isinstance(v, str) and hirq.strip(x["es"][0]).get("lt") == "str":
                out.setdefault(v, set()).update(fields_of(x["es"][1]))
    return out


def rule_attr_fields(chk, fb, rid, only=None, floor=250):
    """One attribute, one field, the same on both sides: a field that the writer emits under attribute names W is fed by
    the reader from exactly those attributes, and vice versa (only for fields and attributes both sides mention)."""
    rid = chk.rule(
        rid,
        "one attribute, one field, the same on both sides: for every struct with a reader and a writer, a field the writer emits under attribute names N is filled by the reader from those same names and no other attribute both sides know (attribute read into the wrong field, or written from it)",
        floor=floor,
    )
    n = 0
    for adt in both_sided(fb):
        if only and adt not in only:
            continue
        R, W = {}, {}
        for d in reader_fns(fb, adt):
            for a, fs in reader_field_map(fb, d, adt).items():
                R.setdefault(a, set()).update(fs)
        for d in writer_fns(fb, adt):
            for a, fs in writer_field_map(fb, d, adt).items():
                W.setdefault(a, set()).update(fs)
        fields = set().union(*R.values()) & set().union(*W.values()) if R and W else set()
        for f in sorted(fields):
            ar = {a for a, fs in R.items() if f in fs}
            aw = {a for a, fs in W.items() if f in fs}
            # only attribute names the other side knows at all (one-sided names are the business of the name-set rule)
            ar_c = {a for a in ar if a in W and W[a]}
            aw_c = {a for a in aw if a in R and R[a]}
            ok = ar_c <= aw and aw_c <= ar
            chk.ob(rid, "%s.%s" % (adt.split("::")[-1], f), ok, where=fb.adts[adt]["file"],
                   detail="read from %s; written as %s" % (sorted(ar), sorted(aw)))
            n += 1
    return n


# ---------------------------------------------------------------------------------------------------------------------
# parsed objects are stored as parsed
PARSED_THEN_CHANGED_OK = {
    # (type of the parsed object, call that is handed the object and a value): reason
    ("Column", "set_col_num"): "a <col min= max=> range is expanded into one Column per index: the number is the loop counter by design",
}


def rule_parsed_as_stored(chk, fb, rid, only_types=None, floor=300):
    """What a reader parses is what the model gets: once a freshly created object has been filled by its set_attributes*,
    nothing else in that function changes it before it is handed over (a 'sanity' correction computed from a half-read
    workbook is the typical violation)."""
    from mirq import Flow
    from cfg import CFG

    r = chk.rule(
        rid,
        "parsed objects are stored as parsed: in every function that creates an object and fills it with set_attributes*, no later call in that function is handed the object by &mut together with a value (no setter), and no field of it is assigned - the listed exception aside",
        floor=floor,
    )
    n = 0
    per = {}
    for d, b in sorted(fb.mir.items()):
        if b["file"].startswith("tests") or "::tests::" in d:
            continue
        sa_names = [t for _, t in fb.calls_in(b) if t.get("fn", "").split("::")[-1].startswith("set_attributes")]
        if not sa_names:
            continue
        fl = Flow(fb, b)
        cfg = None
        for bi, t in fl.calls(lambda t: t.get("fn", "").split("::")[-1].startswith("set_attributes") and t["args"] and "p" in t["args"][0]):
            root = fl.deref_root(t["args"][0]["p"]["l"])
            if root <= b["argc"]:
                continue
            ty = fb.ty(b["locals"][root]["t"]).split("<")[0].split("::")[-1]
            if only_types and ty not in only_types:
                continue
            cfg = cfg or CFG(b)
            after = cfg.reachable_strict(bi)
            changed = []
            for ci, ct in fl.calls():
                if ci == bi or ci not in after or ct.get("fn") == t["fn"]:
                    continue
                if len(ct["args"]) < 2:
                    continue  # nothing is handed in that could be stored: a method that only rearranges what was parsed (e.g. builds derived tables)
                for a in ct["args"]:
                    if "p" in a and not a["p"].get("pr") and fl.local_ty(a["p"]["l"]).startswith("&mut ") and fl.deref_root(a["p"]["l"]) == root:
                        nm = ct.get("fn", "?").split("::")[-1]
                        if (ty, nm) not in PARSED_THEN_CHANGED_OK:
                            changed.append("%s (line %s)" % (nm, ct.get("ln")))
            for x in after | {bi}:
                for st in b["blocks"][x]["s"]:
                    if st["k"] == "assign" and st["lhs"]["l"] == root and st["lhs"].get("pr") and x != bi:
                        changed.append("field assignment (line %s)" % st.get("ln"))
            chk.touch(d)
            k_ = (d, ty)
            per[k_] = per.get(k_, -1) + 1
            chk.ob(r, "%s:%s#%d" % (d.split("::", 1)[-1] if "::" in d else d, ty, per[k_]), not changed, where="%s:%s" % (b["file"], t.get("ln")),
                   detail="after set_attributes the new %s is changed by: %s" % (ty, changed or "nothing"))
            n += 1
    return n



# ---------------------------------------------------------------------------------------------------------------------
# collected, then filed: nothing that was parsed is dropped
def rule_collected_then_filed(chk, fb, rid, floor=1):
    """Readers that first collect parsed objects in a local list and file them afterwards (defined names: with the sheet
    of their scope, with the sheet they point into, or with the workbook) must file every one: each path through the
    filing loop hands the element (or its clone) to a crate function."""
    from mirq import Flow
    from cfg import CFG

    r = chk.rule(
        rid,
        "collected, then filed: in a reader, every element of a locally collected list of parsed model objects is handed to a crate function on every path through the loop that distributes the list (no element falls through unfiled)",
        floor=floor,
    )
    for d, b in sorted(fb.mir.items()):
        if not d.startswith("reader::") or "::{closure" in d:
            continue
        fl = Flow(fb, b)
        cfg = None
        loops = None
        for bi, t in fl.calls(lambda t: t.get("fn", "").endswith("::next") and "Iter" in t.get("fn", "")):
            ety = fb.ty(b["locals"][t["dest"]["l"]]["t"])
            if "structs::" not in ety:
                continue  # not model objects
            src_args = sorted(a[1] for a in fl.atoms(t["args"][0]) if a[0] == "arg")
            if src_args:
                # a list handed in by the caller: it counts when a reader function collected it locally and passes it to this
                # private helper (the distributing loop was extracted); lists owned further up are not this rule's business
                local_at_caller = False
                for c, cbi in sorted(fb.callers.get(d, ())):
                    cb = fb.mir.get(c)
                    if not cb or not c.startswith("reader::"):
                        continue
                    ct = cb["blocks"][cbi]["t"]
                    k = src_args[0] - 1
                    if k < len(ct["args"]) and not any(a[0] == "arg" for a in Flow(fb, cb).atoms(ct["args"][k])):
                        local_at_caller = True
                if not local_at_caller or b.get("vis") == "pub":
                    continue
            if cfg is None:
                cfg = CFG(b)
                loops = {}
                for tl, h in cfg.back_edges():
                    loops.setdefault(h, [set(), []])
                    loops[h][0] |= cfg.natural_loop(tl, h)
                    loops[h][1].append(tl)
            mine = [(h, v) for h, v in loops.items() if bi in v[0]]
            if not mine:
                continue
            h, (body, tails) = min(mine, key=lambda x: len(x[1][0]))
            stores = set()
            only_copies = lambda f: not f.split("::")[-1] in ("clone", "cloned", "copied", "to_owned", "deref", "as_ref", "unwrap", "into", "from", "new")
            for ci, ct in fl.calls():
                # the element itself (or its clone) is what is handed over - not something computed from it
                if ci in body and ci != bi and ct.get("fn", "") in fb.mir and any(x[0] == "call" and x[2] == bi for a in ct["args"][1:] for x in fl.atoms(a, stop_calls=only_copies)):
                    stores.add(ci)
            seen, work = set(), [h]
            while work:
                y = work.pop()
                if y in seen or y in stores or y not in body:
                    continue
                seen.add(y)
                work.extend(z for z in cfg.succ[y] if z != h)
            bypass = any(tl in seen for tl in tails)
            chk.touch(d)
            short = ety.split("::")[-1].rstrip(">")
            chk.ob(r, "%s:%s" % (d.split("::", 1)[-1], short), bool(stores) and not bypass, where="%s:%s" % (b["file"], t.get("ln")),
                   detail="%d filing call(s) in the loop; %s" % (len(stores), "a path through the loop body files the element nowhere: it is dropped on load" if bypass or not stores else "every path files the element"))
            # an element that says where it belongs (a scope test on the element itself) is filed by that first: every filing
            # call is reached only after the scope test
            scope_tests = [ci for ci, ct in fl.calls() if ci in body and ct.get("fn", "") in fb.mir and ct.get("fn", "").split("::")[-1].startswith(("has_local_", "is_local_", "has_scope")) and ct["args"]
                           and any(x[0] == "call" and x[2] == bi for x in fl.atoms(ct["args"][0], stop_calls=only_copies))]
            if scope_tests and stores:
                late = sorted(b["blocks"][ci]["t"].get("ln") for ci in stores if not any(cfg.dominates(st_, ci) for st_ in scope_tests))
                # ... and where the scope decides, nothing else does: the sheet a filing call addresses is not computed from
                # the element's scope id AND from what the element points at (a precedence rule hidden in `a.or(b)`)
                mixed = []
                for ci in sorted(stores):
                    ct = b["blocks"][ci]["t"]
                    ra_ = fl.atoms(ct["args"][0]) if ct["args"] else set()
                    names = {x[1].split("::")[-1] for x in ra_ if x[0] == "call"}
                    # closures the value went through (`.then(|| ..)`, `.and_then(|v| ..)`) count with what they call
                    for x in ra_:
                        if x[0] == "cfn" and x[1] in fb.mir:
                            names |= {tt.get("fn", "").split("::")[-1] for _, tt in fb.calls_in(fb.mir[x[1]])}
                    by_scope = any(n.startswith(("get_local_", "local_")) for n in names)
                    by_target = any(("address" in n or n.endswith("by_name") or n.endswith("by_name_mut") or "sheet_name" in n) for n in names)
                    if by_scope and by_target:
                        mixed.append(ct.get("ln"))
                chk.ob(r, "%s:%s:scope-alone" % (d.split("::", 1)[-1], short), not mixed, where="%s:%s" % (b["file"], mixed[0] if mixed else t.get("ln")),
                       detail="filing calls whose target sheet is computed from the scope id and from the element's address together: %s" % (mixed or "none"))
                chk.ob(r, "%s:%s:scope-first" % (d.split("::", 1)[-1], short), not late, where="%s:%s" % (b["file"], late[0] if late else t.get("ln")),
                       detail="the element's own scope test decides first where it is filed: %s" % ("yes" if not late else "NO - filing call(s) at line(s) %s can be reached without asking for the element's scope (a sheet-scoped name is filed by what it points at)" % late))



# ---------------------------------------------------------------------------------------------------------------------
# attributes do not depend on whether the element has children
def rule_empty_flag_attrs(chk, fb, rid, floor=25):
    """<row s="3"/> and <row s="3">...</row> carry the same attributes: a reader that is told whether its element is
    self-closing reads the attributes either way (the flag only decides whether children are read)."""
    from mirq import Flow
    from cfg import CFG

    r = chk.rule(
        rid,
        "attributes are read whether or not the element is self-closing: in every set_attributes* that receives an is-empty flag, no attribute extraction is control-dependent on that flag (an early return for empty elements comes after the attributes)",
        floor=floor,
    )
    for d, b in sorted(fb.mir.items()):
        if not d.split("::")[-1].startswith("set_attributes") or "::{closure" in d or b["file"].startswith("tests"):
            continue
        bools = [i for i in range(1, b["argc"] + 1) if fb.ty(b["locals"][i]["t"]) == "bool"]
        if not bools:
            continue
        fl = Flow(fb, b)
        cfg = CFG(b)
        # extractions from the element this reader was called for (its BytesStart parameter), not from child elements
        own = lambda t: bool(t["args"]) and any(a[0] == "arg" for a in fl.atoms(t["args"][0], through_calls=False))
        gets = [(bi, t) for bi, t in fl.calls() if (t.get("fn", "").endswith("get_attribute") or t.get("fn", "").split("::")[-1] in ("try_get_attribute", "attributes")) and own(t)]
        bad = []
        for bi, t in gets:
            for x in cfg.control_deps_transitive(bi):
                sw = b["blocks"][x]["t"]
                if sw["k"] == "switch" and any(a[0] == "arg" and a[1] in bools for a in fl.atoms(sw["op"], through_calls=False)):
                    bad.append(t.get("ln"))
        chk.touch(d)
        chk.ob(r, d.split("::", 1)[-1].replace("structs::", ""), not bad, where="%s:%s" % (b["file"], bad[0] if bad else b.get("line", "")),
               detail="%d attribute extraction(s); reached only for non-empty (or only for empty) elements: lines %s" % (len(gets), sorted(set(bad)) or "none"))


# ---------------------------------------------------------------------------------------------------------------------
# an attribute is written under a test of its own field
ATTR_GUARD_OK = {
    # (struct, attribute): reason
    ("Color", "indexed"): "a colour is written in exactly one representation: theme, else indexed, else rgb (else-if chain by design)",
    ("Color", "rgb"): "a colour is written in exactly one representation: theme, else indexed, else rgb (else-if chain by design)",
    ("StyleMatrixReferenceType", "idx"): "idx is written in both branches; the branch only decides whether the element has a child (scheme colour)",
}


def _attr_pushes(h, adt):
    """(attribute name, value expr, [fields read by each enclosing condition], line) for every (name, value) tuple."""
    lets = {}
    for x in hirq.walk(h["body"]):
        if x.get("k") == "let" and x.get("init") is not None and x["pat"].get("k") == "bind":
            lets[x["pat"].get("lid")] = x["init"]

    def fields_of(n, depth=0):
        fs = set(_self_fields(n, adt))
        if depth < 4:
            for y in hirq.walk(n):
                if y.get("k") == "path" and y.get("lid") in lets:
                    fs |= fields_of(lets[y["lid"]], depth + 1)
        return fs

    out = []

    def walk(n, guards):
        if isinstance(n, list):
            for x in n:
                walk(x, guards)
            return
        if not isinstance(n, dict):
            return
        k = n.get("k")
        if k == "if":
            cf = fields_of(n["cond"])
            walk(n["cond"], guards)
            walk(n.get("then"), guards + [cf])
            if n.get("else") is not None:
                walk(n["else"], guards + [cf])
            return
        if k == "tup" and len(n.get("es", [])) == 2:
            v = hirq.lit_value(n["es"][0])
            if isinstance(v, str) and hirq.strip(n["es"][0]).get("lt") == "str":
                out.append((v, fields_of(n["es"][1]), list(guards), n.get("ln")))
        for c in hirq.children(n):
            walk(c, guards)

    walk(h["body"], [])
    return out


def rule_attr_guards(chk, fb, rid, floor=400):
    """`if self.a.has_value() { attributes.push(("b", self.b...)) }` loses b whenever a is absent: the condition under
    which a struct writer emits an attribute reads the field(s) the value comes from, and no other field."""
    r = chk.rule(
        rid,
        "an attribute is written under a test of its own field: in every struct writer, the conditions enclosing the push of (attribute, value) read no field of the struct other than those the value is computed from (listed by-design exceptions aside)",
        floor=floor,
    )
    for adt in both_sided(fb):
        short = adt.split("::")[-1]
        seen = {}
        for d in writer_fns(fb, adt):
            h = fb.hir[d]
            for name, F, guards, ln in _attr_pushes(h, adt):
                G = set().union(*guards) if guards else set()
                other = sorted(G - F) if F else []
                ok = not other or (short, name) in ATTR_GUARD_OK
                i = seen.get(name, 0)
                seen[name] = i + 1
                chk.ob(r, "%s@%s%s" % (short, name, "#%d" % i if i else ""), ok, where="%s:%s" % (h["file"], ln),
                       detail="written from %s under conditions over %s%s" % (sorted(F) or "no field", sorted(G) or "nothing", "; by design: " + ATTR_GUARD_OK[(short, name)] if other and ok else ""))


# ---------------------------------------------------------------------------------------------------------------------
# the self-closing decision covers every child
def rule_empty_covers_children(chk, fb, rid, floor=12):
    """An element written self-closing has no children: the flag that makes a struct writer emit `<x .../>` must be false
    whenever any child would be written, i.e. it reads every field the children are written from."""
    r = chk.rule(
        rid,
        "the self-closing decision covers every child: where a struct writer passes a computed is-empty flag to the start-tag writer, the flag's expression reads every field of the struct that is read inside the blocks guarded by that flag (the children) - a child whose field the flag ignores is dropped whenever the others are absent",
        floor=floor,
    )
    for adt in sorted(fb.adts):
        for d in writer_fns(fb, adt):
            h = fb.hir[d]
            lets = {}
            for x in hirq.walk(h["body"]):
                if x.get("k") == "let" and x.get("init") is not None and x["pat"].get("k") == "bind":
                    lets[x["pat"].get("lid")] = x["init"]

            def fields_of(nn, depth=0):
                fs = set(_self_fields(nn, adt))
                if depth < 4:
                    for y in hirq.walk(nn):
                        if y.get("k") == "path" and y.get("lid") in lets:
                            fs |= fields_of(lets[y["lid"]], depth + 1)
                return fs

            n = 0
            for x in hirq.walk(h["body"]):
                if not (x.get("k") == "call" and x.get("def", "").endswith("write_start_tag") and len(x.get("args", [])) == 4):
                    continue
                fl = hirq.strip(x["args"][3])
                if fl.get("k") == "lit":
                    continue
                E = fields_of(fl)
                flag_lids = {y.get("lid") for y in hirq.walk(fl) if y.get("k") == "path" and y.get("lid") in lets}
                if not flag_lids:
                    continue
                C = set()
                for y in hirq.walk(h["body"]):
                    if y.get("k") == "if" and any(z.get("k") == "path" and z.get("lid") in flag_lids for z in hirq.walk(y["cond"])):
                        C |= _self_fields(y["then"], adt)
                        if y.get("else") is not None:
                            C |= _self_fields(y["else"], adt)
                miss = sorted(C - E)
                chk.ob(r, "%s#%d" % (adt.split("::")[-1], n), not miss, where="%s:%s" % (h["file"], x.get("ln")),
                       detail="is-empty flag reads %s; children are written from %s%s" % (sorted(E), sorted(C), "; NOT covered by the flag: %s" % miss if miss else ""))
                n += 1


# ---------------------------------------------------------------------------------------------------------------------
# an accessor gives access, it does not replace
REPLACERS = ("insert", "replace", "take", "take_if", "zip", "xor")


def rule_accessor_keeps_state(chk, fb, rid, only=None, floor=150):
    """`x.get_foo_mut()` twice in a row is the same foo: a `get_*_mut` accessor of an optional component creates the
    component when it is absent (get_or_insert / a test for None) and never replaces one that is there."""
    r = chk.rule(
        rid,
        "an accessor gives access, it does not replace: no `get_*_mut` method applies Option::insert / replace / take (or mem::replace / take / swap) to a component of self - creation on demand goes through get_or_insert* or happens under a test that the component is absent",
        floor=floor,
    )
    for d, b in sorted(fb.mir.items()):
        nm = d.split("::")[-1]
        if not (nm.startswith("get_") and nm.endswith("_mut")) or b["kind"] != "AssocFn" or b["file"].startswith("tests") or not b.get("self_ty", "").startswith("structs::"):
            continue
        if only and b.get("self_ty") not in only:
            continue
        opt = [t for _, t in fb.calls_in(b) if t.get("fn", "").startswith("std::option::Option::<T>::") or t.get("fn", "").startswith("std::mem::")]
        if not opt:
            continue
        bad = sorted({t["fn"].split("::")[-1] for t in opt if (t["fn"].startswith("std::option::") and t["fn"].split("::")[-1] in REPLACERS) or (t["fn"].startswith("std::mem::") and t["fn"].split("::")[-1] in ("replace", "take", "swap"))})
        chk.touch(d)
        chk.ob(r, d.replace("structs::", "", 1), not bad, where=fb.loc(d), detail="Option / mem operations used: %s%s" % (sorted({t["fn"].split("::")[-1] for t in opt}), "; REPLACES the component on every access: %s" % bad if bad else ""))


# ---------------------------------------------------------------------------------------------------------------------
# text is read untrimmed
def rule_text_untrimmed(chk, fb, rid, floor=2):
    """Strings of the model (shared strings, rich-text runs, comment text) are read through the `<t>` reader; the XML
    reader that feeds it must not trim text nodes, or leading / trailing white space and white-space-only runs are lost."""
    from mirq import Flow

    TEXT = "structs::text::Text::set_attributes"
    r = chk.rule(
        rid,
        "text is read untrimmed: every function that configures an XML reader's text trimming and hands that reader (through the struct readers it calls) to the `<t>` reader configures it with trim_text(false), and never with true",
        floor=floor,
    )
    memo = {}

    def feeds_text(fn, p, depth=0):
        """parameter p (a &mut Reader) of fn reaches the <t> reader"""
        key = (fn, p)
        if key in memo:
            return memo[key]
        memo[key] = False
        b = fb.mir.get(fn)
        if not b or depth > 8:
            return False
        if fn == TEXT:
            memo[key] = True
            return True
        fl = Flow(fb, b)
        for _, t in fl.calls():
            f = t.get("fn", "")
            if f not in fb.mir:
                continue
            for i, a in enumerate(t["args"]):
                if ("arg", p) in fl.atoms(a, through_calls=False) and "Reader<" in fb.ty(fb.mir[f]["locals"][i + 1]["t"]) if i + 1 < len(fb.mir[f]["locals"]) else False:
                    if feeds_text(f, i + 1, depth + 1):
                        memo[key] = True
                        return True
        return False

    for d, b in sorted(fb.mir.items()):
        if "::{closure" in d or b["file"].startswith("tests"):
            continue
        fl = Flow(fb, b)
        trims = [(bi, t) for bi, t in fl.calls() if t.get("fn", "").split("::")[-1] == "trim_text"]
        if not trims:
            continue
        # the reader object configured here: a local of type Reader<..>
        readers = [l for l, loc in enumerate(b["locals"]) if l > b["argc"] and fb.ty(loc["t"]).startswith("quick_xml::Reader<")]
        feeds = False
        for _, t in fl.calls():
            f = t.get("fn", "")
            if f not in fb.mir:
                continue
            for i, a in enumerate(t["args"]):
                if "p" in a and fl.deref_root(a["p"]["l"]) in readers and i + 1 < len(fb.mir[f]["locals"]) and "Reader<" in fb.ty(fb.mir[f]["locals"][i + 1]["t"]):
                    if feeds_text(f, i + 1):
                        feeds = True
        if not feeds:
            continue
        vals = [a.get("i") for _, t in trims for a in t["args"][1:]]
        chk.touch(d)
        chk.ob(r, d.split("::", 1)[-1], bool(vals) and all(v == 0 for v in vals), where=fb.loc(d), detail="this reader feeds the <t> reader; trim_text settings: %s" % ["true" if v == 1 else ("false" if v == 0 else "computed") for v in vals])


# ---------------------------------------------------------------------------------------------------------------------
# arguments reach the parameters they are named after
def _var_name(b, fl, l, depth=0):
    """Source-level name of the variable a local stands for: itself, what it borrows (a named place such as one half of a
    destructured tuple), what it was moved from, or what a Deref / as_str / as_ref call was applied to."""
    if l is None or depth > 8:
        return None
    if b["locals"][l].get("n"):
        return b["locals"][l]["n"]
    if l in fl.ref_of:
        pl = fl.ref_of[l]
        fields = [str(e.get("f")) for e in pl.get("pr", []) if isinstance(e, dict) and "f" in e]
        for e in b.get("dbg") or []:
            ep = e.get("place", {})
            if ep.get("l") == pl["l"] and [str(x.get("f")) for x in ep.get("pr", []) if isinstance(x, dict) and "f" in x] == fields and fields:
                return e.get("name")
        return _var_name(b, fl, pl["l"], depth + 1) if not fields else None
    ds = fl.defs.get(l, [])
    if len(ds) == 1:
        if ds[0][0] == "rv" and ds[0][3]["k"] == "use" and "p" in ds[0][3]["op"] and not ds[0][3]["op"]["p"].get("pr"):
            return _var_name(b, fl, ds[0][3]["op"]["p"]["l"], depth + 1)
        if ds[0][0] == "call" and ds[0][3].get("fn", "").split("::")[-1] in ("deref", "as_str", "as_ref", "borrow", "as_slice", "as_path") and ds[0][3]["args"] and "p" in ds[0][3]["args"][0]:
            return _var_name(b, fl, ds[0][3]["args"][0]["p"]["l"], depth + 1)
    return None


def rule_swapped_args(chk, fb, rid, floor=3000):
    """`f(comment_no, vml_drawing_no)` into `fn f(vml_drawing_no, comment_no)`: two arguments of the same type, each a
    variable that carries the *other* parameter's name.  (Reordering a signature without its call sites compiles.)"""
    from mirq import Flow

    r = chk.rule(
        rid,
        "arguments reach the parameters they are named after: at no call of a crate function are two same-typed parameters each given a variable that bears the other parameter's name",
        floor=1,
    )
    n = 0
    bad = []
    for d, b in sorted(fb.mir.items()):
        if b["file"].startswith("tests"):
            continue
        fl = None
        for bi, t in fb.calls_in(b):
            cb = fb.mir.get(t.get("fn", ""))
            if not cb or cb["argc"] != len(t["args"]) or cb["argc"] < 2:
                continue
            pn = [cb["locals"][i + 1].get("n") for i in range(cb["argc"])]
            fl = fl or Flow(fb, b)
            an = []
            for a in t["args"]:
                nm = None
                if "p" in a:
                    nm = _var_name(b, fl, a["p"]["l"])
                an.append(nm)
            n += 1
            for i in range(len(an)):
                for j in range(i + 1, len(an)):
                    if an[i] and an[j] and an[i] != an[j] and an[i] == pn[j] and an[j] == pn[i] and cb["locals"][i + 1]["t"] == cb["locals"][j + 1]["t"]:
                        bad.append("%s:%s" % (b["file"], t.get("ln")))
                        chk.touch(d)
                        chk.ob(r, "%s->%s:%s<->%s" % (d.split("::", 1)[-1], t["fn"].split("::")[-1], an[i], an[j]), False, where="%s:%s" % (b["file"], t.get("ln")),
                               detail="variable `%s` is passed as parameter `%s` and `%s` as `%s` (same type)" % (an[i], pn[i], an[j], pn[j]))
    chk.ob(r, "calls-inspected", not bad and n >= floor, where="src", detail="%d calls of crate functions with named arguments inspected; crossed pairs: %s" % (n, bad or "none"))


# ---------------------------------------------------------------------------------------------------------------------
# every element of a model list is written
def rule_all_written(chk, fb, rid, elem_suffix="defined_name::DefinedName", floor=2):
    """A part writer that walks a list of model objects writes each of them: no path through the loop body skips the
    element's own writer (a `continue` for "duplicates" decided on stale keys drops user data)."""
    from mirq import Flow
    from cfg import CFG

    r = chk.rule(
        rid,
        "every element is written: in the package writers, each loop over a list of %s calls the element's write_to* on every path through the loop body" % elem_suffix.split("::")[-1],
        floor=floor,
    )
    for d, b in sorted(fb.mir.items()):
        if not d.startswith("writer::") or "::{closure" in d:
            continue
        fl = Flow(fb, b)
        cfg = None
        loops = None
        n = 0
        for bi, t in fl.calls(lambda t: t.get("fn", "").endswith("::next") and "Iter" in t.get("fn", "")):
            ety = fb.ty(b["locals"][t["dest"]["l"]]["t"])
            if not ety.rstrip(">").endswith(elem_suffix):
                continue
            if cfg is None:
                cfg = CFG(b)
                loops = {}
                for tl, h in cfg.back_edges():
                    loops.setdefault(h, [set(), []])
                    loops[h][0] |= cfg.natural_loop(tl, h)
                    loops[h][1].append(tl)
            mine = [(h, v) for h, v in loops.items() if bi in v[0]]
            if not mine:
                continue
            h, (body, tails) = min(mine, key=lambda x: len(x[1][0]))
            writes = {ci for ci, ct in fl.calls() if ci in body and ct.get("fn", "").split("::")[-1].startswith("write_to") and ct["args"] and any(x[0] == "call" and x[2] == bi for x in fl.atoms(ct["args"][0], stop_calls=lambda f: f in fb.mir and not f.endswith("::clone")))}
            seen, work = set(), [h]
            while work:
                y = work.pop()
                if y in seen or y in writes or y not in body:
                    continue
                seen.add(y)
                work.extend(z for z in cfg.succ[y] if z != h)
            bypass = any(tl in seen for tl in tails)
            chk.touch(d)
            chk.ob(r, "%s:loop#%d" % (d.split("::", 1)[-1], n), bool(writes) and not bypass, where="%s:%s" % (b["file"], t.get("ln")),
                   detail="%d write call(s) in the loop; %s" % (len(writes), "a path through the loop body writes nothing for the element" if bypass or not writes else "every path writes the element"))
            n += 1


# ---------------------------------------------------------------------------------------------------------------------
# positional tables are written whole
POSITIONAL_EXEMPT = {
    "NumberingFormats": "numFmt elements carry their own numFmtId attribute; only custom formats are written, built-in ids are implied",
}
FILTERING = ("filter", "filter_map", "skip", "take", "skip_while", "take_while", "step_by", "dedup", "dedup_by", "dedup_by_key", "retain")


def rule_positional_tables(chk, fb, rid, floor=3):
    """fontId / fillId / borderId / dxfId are positions in their table: the table's writer has to emit every entry, in
    order - an entry that is skipped (because it "says nothing") shifts every later index."""
    r = chk.rule(
        rid,
        "positional tables are written whole: the writer of every interning table whose ids are positions (fonts, fills, borders, dxfs ...) applies no filtering, skipping or de-duplicating adaptor to its entries",
        floor=floor,
    )
    for d, b in sorted(fb.mir.items()):
        if d.split("::")[-1] != "write_to" or not b.get("self_ty", "").startswith("structs::"):
            continue
        adt = b["self_ty"]
        short = adt.split("::")[-1]
        if (adt + "::set_style") not in fb.mir or not short.endswith("s") and not short.endswith("Crate"):
            continue
        # a table: a struct with one collection field
        fields = fb.adts.get(adt, {}).get("variants", [{}])[0].get("fields", [])
        if not any("Vec<" in f["ty"] for f in fields):
            continue
        names = sorted({t.get("fn", "").split("::")[-1] for bd in [d] + [c for c in fb.mir if c.startswith(d + "::{closure")] for _, t in fb.calls_in(fb.mir[bd])} & set(FILTERING))
        chk.touch(d)
        ok = not names or short in POSITIONAL_EXEMPT
        chk.ob(r, short, ok, where=fb.loc(d), detail="adaptors that drop entries: %s%s" % (names or "none", "; exempt: " + POSITIONAL_EXEMPT[short] if names and short in POSITIONAL_EXEMPT else ""))
