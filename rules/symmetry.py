"""E1 — reader/writer symmetry: per struct, the attribute names and child-element names its reader
(set_attributes*) consumes vs the ones its writer (write_to*) emits. Typed HIR only."""
import hirq


def reader_fns(fb, adt):
    return [d for d, h in fb.hir.items() if h.get("self_ty") == adt and d.split("::")[-1].startswith("set_attributes")]


def writer_fns(fb, adt):
    return [d for d, h in fb.hir.items() if h.get("self_ty") == adt and d.split("::")[-1].startswith("write_to")]


def _bytes_or_str(n):
    n = hirq.strip(n)
    if n.get("k") == "lit" and n.get("lt") in ("bytes", "str"):
        return n["v"]
    if n.get("k") == "mcall" and n.get("name") in ("as_bytes", "as_ref", "as_str") :
        return _bytes_or_str(n["recv"])
    if n.get("k") == "path" and n.get("dk") == "Const":
        return None
    return None


def read_names(fb, d):
    """(attributes read, child elements dispatched on) in reader fn d."""
    h = fb.hir[d]
    attrs, elems = set(), set()
    for x in hirq.walk(h["body"]):
        k = x.get("k")
        if k == "call" and x.get("def", "").endswith("reader::driver::get_attribute") and len(x.get("args", [])) == 2:
            v = _bytes_or_str(x["args"][1])
            if v is not None:
                attrs.add(v)
        if k == "mcall" and x.get("name") in ("try_get_attribute",) and x.get("args"):
            v = _bytes_or_str(x["args"][0])
            if v is not None:
                attrs.add(v)
        if k == "match":
            sc = x["scrut"]
            sc_calls = [c.get("name") or c.get("def", "").split("::")[-1] for c in hirq.calls(sc)]
            sc_fields = [y.get("name") for y in hirq.walk(sc) if y.get("k") == "field"]
            lits = []
            for a in x["arms"]:
                ls = hirq.pat_literals(a["pat"])
                if ls:
                    lits += [l for l in ls if isinstance(l, str) and not l.startswith("path:")]
            if not lits:
                continue
            if "key" in sc_fields or "key" in sc_calls:
                attrs |= set(lits)
            elif "name" in sc_calls or "local_name" in sc_calls:
                elems |= set(lits)
        if k == "bin" and x.get("op") in ("==", "!="):
            # e.name().into_inner() == b"tag"   /   attr.key.0 == b"x"
            for a, b_ in ((x["l"], x["r"]), (x["r"], x["l"])):
                v = _bytes_or_str(b_)
                if v is None:
                    continue
                calls = [c.get("name") or "" for c in hirq.calls(a)]
                fields = [y.get("name") for y in hirq.walk(a) if y.get("k") == "field"]
                if "name" in calls or "local_name" in calls:
                    elems.add(v)
                elif "key" in fields or "key" in calls:
                    attrs.add(v)
        # guards in match arms: Ok(ref attr) if attr.key.0 == b"codeName"
    for x in hirq.walk(h["body"]):
        if x.get("k") is None and x.get("guard"):
            g = x["guard"]
            for y in hirq.walk(g):
                if y.get("k") == "bin" and y.get("op") == "==":
                    for a, b_ in ((y["l"], y["r"]), (y["r"], y["l"])):
                        v = _bytes_or_str(b_)
                        if v is not None and any(z.get("name") == "key" for z in hirq.walk(a) if z.get("k") == "field"):
                            attrs.add(v)
    return attrs, elems


def write_names(fb, d):
    """(attribute names written, element names written) in writer fn d."""
    h = fb.hir[d]
    attrs, elems = set(), set()
    for x in hirq.walk(h["body"]):
        k = x.get("k")
        if k == "tup" and len(x.get("es", [])) == 2:
            v = hirq.lit_value(x["es"][0])
            if isinstance(v, str) and hirq.strip(x["es"][0]).get("lt") == "str":
                attrs.add(v)
        if k == "call" and x.get("def", "").split("::")[-1] in ("write_start_tag", "write_end_tag") and len(x.get("args", [])) >= 2:
            v = hirq.lit_value(x["args"][1])
            if isinstance(v, str):
                elems.add(v)
    return attrs, elems


def struct_tables(fb, adt):
    ra, re_, wa, we = set(), set(), set(), set()
    rf, wf = reader_fns(fb, adt), writer_fns(fb, adt)
    for d in rf:
        a, e = read_names(fb, d)
        ra |= a
        re_ |= e
    for d in wf:
        a, e = write_names(fb, d)
        wa |= a
        we |= e
    return {"reader": rf, "writer": wf, "read_attrs": ra, "read_elems": re_, "written_attrs": wa, "written_elems": we}


def both_sided(fb):
    out = []
    for adt, a in fb.adts.items():
        if a["kind"] != "struct":
            continue
        if reader_fns(fb, adt) and writer_fns(fb, adt):
            out.append(adt)
    return sorted(out)
