"""OPC / SpreadsheetML part kinds -> content types (ECMA-376 Part 1 Annex / Part 2) — NOT from the code under analysis.
Each entry: (regex over the part name without leading slash, content type, how it may be declared)."""
import re

M = "application/vnd.openxmlformats-officedocument."
PARTS = [
    (r"^xl/workbook\.xml$", {M + "spreadsheetml.sheet.main+xml", "application/vnd.ms-excel.sheet.macroEnabled.main+xml"}),
    (r"^xl/worksheets/sheet[^/]*\.xml$", {M + "spreadsheetml.worksheet+xml"}),
    (r"^xl/sharedStrings\.xml$", {M + "spreadsheetml.sharedStrings+xml"}),
    (r"^xl/styles\.xml$", {M + "spreadsheetml.styles+xml"}),
    (r"^xl/theme/theme[^/]*\.xml$", {M + "theme+xml"}),
    (r"^xl/drawings/drawing[^/]*\.xml$", {M + "drawing+xml"}),
    (r"^xl/drawings/vmlDrawing[^/]*\.vml$", {M + "vmlDrawing"}),
    (r"^xl/charts/chart[^/]*\.xml$", {M + "drawingml.chart+xml"}),
    (r"^xl/comments[^/]*\.xml$", {M + "spreadsheetml.comments+xml"}),
    (r"^xl/tables/table[^/]*\.xml$", {M + "spreadsheetml.table+xml"}),
    (r"^xl/printerSettings/printerSettings[^/]*\.bin$", {M + "spreadsheetml.printerSettings"}),
    (r"^xl/embeddings/oleObject[^/]*\.bin$", {M + "oleObject"}),
    (r"^xl/embeddings/[^/]*\.xlsx$", {M + "spreadsheetml.sheet"}),
    (r"^xl/vbaProject\.bin$", {"application/vnd.ms-office.vbaProject"}),
    (r"^docProps/core\.xml$", {"application/vnd.openxmlformats-package.core-properties+xml"}),
    (r"^docProps/app\.xml$", {M + "extended-properties+xml"}),
    (r"^docProps/custom\.xml$", {M + "custom-properties+xml"}),
    (r".*\.rels$", {"application/vnd.openxmlformats-package.relationships+xml"}),
    (r"^xl/media/.*$", None),  # images: declared by extension Default (png/jpeg/...); name is data-dependent
    (r"^\[Content_Types\]\.xml$", "self"),
]


def expected(template):
    name = template.replace("{}", "1")
    for rx, ct in PARTS:
        if re.match(rx, name):
            return ct
    return "unknown"


# relationship target (relative to the source part's directory) -> must resolve to a part template
def resolve(source_part, target):
    if target.startswith("/"):
        return target[1:]
    base = source_part.rsplit("/", 1)[0] if "/" in source_part else ""
    parts = (base + "/" + target).split("/")
    out = []
    for p in parts:
        if p == "..":
            if out:
                out.pop()
        elif p and p != ".":
            out.append(p)
    return "/".join(out)


# source part of a .rels part:  xl/worksheets/_rels/sheet1.xml.rels -> xl/worksheets/sheet1.xml
def source_of_rels(rels_part):
    d, f = rels_part.rsplit("/", 1)
    d = d[: -len("/_rels")] if d.endswith("/_rels") else ("" if d == "_rels" else d)
    f = f[: -len(".rels")]
    return (d + "/" + f) if d else f


# Parts that a sheet carried over unparsed may bring along, next to parts of another kind in the same folder.
# Probe names for the override rules: the rule chain must give them their own type or none at all (-> recorded type /
# Default), never the type of their neighbours.
CARRIED = {
    "xl/charts/style1.xml": "application/vnd.ms-office.chartstyle+xml",
    "xl/charts/colors1.xml": "application/vnd.ms-office.chartcolorstyle+xml",
    "xl/charts/_rels/chart1.xml.rels": "application/vnd.openxmlformats-package.relationships+xml",
    "xl/drawings/_rels/drawing1.xml.rels": "application/vnd.openxmlformats-package.relationships+xml",
    "xl/worksheets/_rels/sheet1.xml.rels": "application/vnd.openxmlformats-package.relationships+xml",
    "xl/ctrlProps/ctrlProp1.xml": "application/vnd.ms-excel.controlproperties+xml",
    "xl/pivotTables/pivotTable1.xml": M + "spreadsheetml.pivotTable+xml",
    "xl/pivotCache/pivotCacheDefinition1.xml": M + "spreadsheetml.pivotCacheDefinition+xml",
    "xl/pivotCache/pivotCacheRecords1.xml": M + "spreadsheetml.pivotCacheRecords+xml",
    "xl/threadedComments/threadedComment1.xml": "application/vnd.ms-excel.threadedcomments+xml",
    "xl/persons/person.xml": "application/vnd.ms-excel.person+xml",
    "xl/diagrams/data1.xml": M + "drawingml.diagramData+xml",
    "xl/media/image1.png": None,
    "customXml/item1.xml": None,
}
