"""Reference tables taken from ECMA-376 Part 1 (SpreadsheetML) — NOT from the code under analysis."""

# 18.18.11 ST_CellType
ST_CELL_TYPE = ["b", "d", "e", "inlineStr", "n", "s", "str"]

# 18.3.1.99 CT_Worksheet: order of child elements
CT_WORKSHEET = [
    "sheetPr", "dimension", "sheetViews", "sheetFormatPr", "cols", "sheetData", "sheetCalcPr",
    "sheetProtection", "protectedRanges", "scenarios", "autoFilter", "sortState", "dataConsolidate",
    "customSheetViews", "mergeCells", "phoneticPr", "conditionalFormatting", "dataValidations",
    "hyperlinks", "printOptions", "pageMargins", "pageSetup", "headerFooter", "rowBreaks", "colBreaks",
    "customProperties", "cellWatches", "ignoredErrors", "smartTags", "drawing", "legacyDrawing",
    "legacyDrawingHF", "drawingHF", "picture", "oleObjects", "controls", "webPublishItems", "tableParts",
    "extLst",
]

# 18.2.27 CT_Workbook: order of child elements
CT_WORKBOOK = [
    "fileVersion", "fileSharing", "workbookPr", "workbookProtection", "bookViews", "sheets", "functionGroups",
    "externalReferences", "definedNames", "calcPr", "oleSize", "customWorkbookViews", "pivotCaches",
    "smartTagPr", "smartTagTypes", "webPublishing", "fileRecoveryPr", "webPublishObjects", "extLst",
]

# 18.8.39 CT_Stylesheet
CT_STYLESHEET = [
    "numFmts", "fonts", "fills", "borders", "cellStyleXfs", "cellXfs", "cellStyles", "dxfs", "tableStyles",
    "colors", "extLst",
]

# element (in the sheet part) <-> relationship type suffix (Part 1, 9.2 / 15.2)
REL_TYPE_OF_ELEMENT = {
    "hyperlink": "hyperlink",
    "pageSetup": "printerSettings",
    "drawing": "drawing",
    "legacyDrawing": "vmlDrawing",
    "tablePart": "table",
    "oleObject": "oleObject",  # plus image for the preview
    "comments": "comments",
}


# Simple types of ECMA-376 Part 1 (sml.xsd), keyed by the crate's enum that carries them. Source: the standard's schema,
# section 18.18 (SpreadsheetML simple types).
SIMPLE_TYPES = {
    "PaneValues": ("ST_Pane", ["bottomRight", "topRight", "bottomLeft", "topLeft"]),
    "PaneStateValues": ("ST_PaneState", ["split", "frozen", "frozenSplit"]),
    "DataValidationValues": ("ST_DataValidationType", ["none", "whole", "decimal", "list", "date", "time", "textLength", "custom"]),
    "DataValidationOperatorValues": ("ST_DataValidationOperator", ["between", "notBetween", "equal", "notEqual", "lessThan", "lessThanOrEqual", "greaterThan", "greaterThanOrEqual"]),
    "HorizontalAlignmentValues": ("ST_HorizontalAlignment", ["general", "left", "center", "right", "fill", "justify", "centerContinuous", "distributed"]),
    "VerticalAlignmentValues": ("ST_VerticalAlignment", ["top", "center", "bottom", "justify", "distributed"]),
    "BorderStyleValues": ("ST_BorderStyle", ["none", "thin", "medium", "dashed", "dotted", "thick", "double", "hair", "mediumDashed", "dashDot", "mediumDashDot", "dashDotDot", "mediumDashDotDot", "slantDashDot"]),
    "PatternValues": ("ST_PatternType", ["none", "solid", "mediumGray", "darkGray", "lightGray", "darkHorizontal", "darkVertical", "darkDown", "darkUp", "darkGrid", "darkTrellis", "lightHorizontal", "lightVertical", "lightDown", "lightUp", "lightGrid", "lightTrellis", "gray125", "gray0625"]),
    "UnderlineValues": ("ST_UnderlineValues", ["single", "double", "singleAccounting", "doubleAccounting", "none"]),
    "VerticalAlignmentRunValues": ("ST_VerticalAlignRun", ["baseline", "superscript", "subscript"]),
    "SheetStateValues": ("ST_SheetState", ["visible", "hidden", "veryHidden"]),
    "ConditionalFormatValues": ("ST_CfType", ["expression", "cellIs", "colorScale", "dataBar", "iconSet", "top10", "uniqueValues", "duplicateValues", "containsText", "notContainsText", "beginsWith", "endsWith", "containsBlanks", "notContainsBlanks", "containsErrors", "notContainsErrors", "timePeriod", "aboveAverage"]),
    "ConditionalFormattingOperatorValues": ("ST_ConditionalFormattingOperator", ["lessThan", "lessThanOrEqual", "equal", "notEqual", "greaterThanOrEqual", "greaterThan", "between", "notBetween", "containsText", "notContains", "beginsWith", "endsWith"]),
    "TimePeriodValues": ("ST_TimePeriod", ["today", "yesterday", "tomorrow", "last7Days", "thisMonth", "lastMonth", "nextMonth", "thisWeek", "lastWeek", "nextWeek"]),
    "OrientationValues": ("ST_Orientation", ["default", "portrait", "landscape"]),
    "CellFormulaValues": ("ST_CellFormulaType", ["normal", "array", "dataTable", "shared"]),
    "FontSchemeValues": ("ST_FontScheme", ["none", "major", "minor"]),
    "ConditionalFormatValueObjectValues": ("ST_CfvoType", ["num", "percent", "max", "min", "formula", "percentile"]),
    "SheetViewValues": ("ST_SheetViewType", ["normal", "pageBreakPreview", "pageLayout"]),
    "TotalsRowFunctionValues": ("ST_TotalsRowFunction", ["none", "sum", "min", "max", "average", "count", "countNums", "stdDev", "var", "custom"]),
}


# ECMA-376 Part 1, 18.17.2.2 (error constants of the formula grammar) / ST_CellErrorType-like literals that may appear
# inside formula text.  An error literal the tokenizer does not know never ends its error state.
FORMULA_ERROR_LITERALS = ["#NULL!", "#DIV/0!", "#VALUE!", "#REF!", "#NAME?", "#NUM!", "#N/A"]
