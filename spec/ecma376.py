"""Reference tables taken from ECMA-376 Part 1 (SpreadsheetML) — NOT from the code under analysis."""

# 18.18.11 ST_CellType
ST_CELL_TYPE = ["b", "d", "e", "inlineStr", "n", "s", "str"]

# 18.3.1.99 CT_Worksheet: order of child elements
CT_WORKSHEET = [
    "sheetPr", "dimension", "sheetViews", "sheetFormatPr", "cols", "sheetData", "sheetCalcPr",
    "sheetProtection", "protectedRanges", "scenarios", "autoFilter", "sortState", "dataConsolidate",
    "customSheetViews", "mergeCells", "phoneticPr", "conditionalFormatting", "dataValidations",
    "hyperlinks", "printOptions", "pageMargins", "pageSetup", "headerFooter", "rowBreaks", "colBreaks",
    "customProperties", "cellWatches", "ignoredErrors", "smartTags", "drawing", "legacyDrawing",
    "legacyDrawingHF", "drawingHF", "picture", "oleObjects", "controls", "webPublishItems", "tableParts",
    "extLst",
]

# 18.2.27 CT_Workbook: order of child elements
CT_WORKBOOK = [
    "fileVersion", "fileSharing", "workbookPr", "workbookProtection", "bookViews", "sheets", "functionGroups",
    "externalReferences", "definedNames", "calcPr", "oleSize", "customWorkbookViews", "pivotCaches",
    "smartTagPr", "smartTagTypes", "webPublishing", "fileRecoveryPr", "webPublishObjects", "extLst",
]

# 18.8.39 CT_Stylesheet
CT_STYLESHEET = [
    "numFmts", "fonts", "fills", "borders", "cellStyleXfs", "cellXfs", "cellStyles", "dxfs", "tableStyles",
    "colors", "extLst",
]

# element (in the sheet part) <-> relationship type suffix (Part 1, 9.2 / 15.2)
REL_TYPE_OF_ELEMENT = {
    "hyperlink": "hyperlink",
    "pageSetup": "printerSettings",
    "drawing": "drawing",
    "legacyDrawing": "vmlDrawing",
    "tablePart": "table",
    "oleObject": "oleObject",  # plus image for the preview
    "comments": "comments",
}
