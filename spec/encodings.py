"""CsvEncodeValues variant (the library's public option, documented as an encoding name) -> name of the
encoding_rs static implementing the WHATWG encoding of that name. None = UTF-8 (Rust strings are UTF-8).
Source: WHATWG Encoding Standard labels / encoding_rs documentation, NOT the code under analysis."""
ENCODING_RS_STATIC = {
    "Utf8": None,
    "ShiftJis": "SHIFT_JIS",
    "Koi8u": "KOI8_U",
    "Koi8r": "KOI8_R",
    "Iso88598i": "ISO_8859_8_I",
    "Gbk": "GBK",
    "EucKr": "EUC_KR",
    "Big5": "BIG5",
    "Utf16Le": "UTF_16LE",
    "Utf16Be": "UTF_16BE",
}
