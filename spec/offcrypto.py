"""MS-OFFCRYPTO 2.3.4.10-2.3.4.14 (agile encryption) and ECMA-376 Part 1 18.2.29 / Part 4 3.2.29 (password hash)
as dataflow templates — taken from the standards, NOT from the code under analysis.

Template terms: ("V", name) is a variable (unified across the whole template set), ("F", suffix, args...) a call
whose callee path ends with suffix, ("C", value) a constant, ("ANY",) matches anything. ("UNWRAP", t) is t possibly
wrapped in Result::unwrap / expect / `?`."""

BLOCK_KEYS = {
    # 2.3.4.13 / 2.3.4.14
    "verifier_hash_input": "fea7d2763b4b9e79",
    "verifier_hash_value": "d7aa0f6d3061344e",
    "key_value": "146e0be7abacd0d6",
    "hmac_key": "5fb2ad010cb9e1f6",
    "hmac_value": "a0677f02b22c8433",
}
SEGMENT_SIZE = 4096
LENGTH_PREFIX = 8
IV_PAD_BYTE = 0x36


def V(n):
    return ("V", n)


def BK(name):
    return ("BLOCKKEY", BLOCK_KEYS[name])


def kdf(block):  # H_final = H(H_n || blockKey) with H_0 = H(salt || pw), H_i = H(LE32(i) || H_{i-1})
    return ("F", "convert_password_to_key", V("password"), V("key_hash_alg"), V("key_salt"), V("spin"), V("key_bits"), BK(block))


def enc_with_password(block, data):  # AES-CBC, key = KDF(block), IV = key salt
    return ("UNWRAP", ("F", "crypt", ("ANY",), V("key_cipher"), V("key_chaining"), kdf(block), V("key_salt"), data))


def pkg_iv(block):  # IV = H(package salt || blockKey) truncated/padded to the block size
    return ("F", "create_iv", V("pkg_hash_alg"), V("pkg_salt"), V("pkg_block"), BK(block))


def enc_with_package_key(block, data):
    return ("UNWRAP", ("F", "crypt", ("ANY",), V("pkg_cipher"), V("pkg_chaining"), V("pkg_key"), pkg_iv(block), data))


ENCRYPTED_PACKAGE = ("F", "crypt_package", ("C", 1), V("pkg_cipher"), V("pkg_chaining"), V("pkg_hash_alg"), V("pkg_block"), V("pkg_salt"), V("pkg_key"), V("package_bytes"))

# (element, attribute) of EncryptionInfo -> dataflow template of the value stored there
ENCRYPTION_INFO = {
    ("keyData", "saltValue"): V("pkg_salt"),
    ("keyData", "blockSize"): V("pkg_block"),
    ("keyData", "keyBits"): ("KEYBITS", V("pkg_key")),
    ("keyData", "cipherAlgorithm"): V("pkg_cipher"),
    ("keyData", "cipherChaining"): V("pkg_chaining"),
    ("keyData", "hashAlgorithm"): V("pkg_hash_alg"),
    ("dataIntegrity", "encryptedHmacKey"): enc_with_package_key("hmac_key", V("hmac_key")),
    ("dataIntegrity", "encryptedHmacValue"): enc_with_package_key("hmac_value", ("UNWRAP", ("F", "hmac", V("pkg_hash_alg"), V("hmac_key"), ("VEC", ENCRYPTED_PACKAGE)))),
    ("p:encryptedKey", "spinCount"): V("spin"),
    ("p:encryptedKey", "saltValue"): V("key_salt"),
    ("p:encryptedKey", "keyBits"): V("key_bits"),
    ("p:encryptedKey", "cipherAlgorithm"): V("key_cipher"),
    ("p:encryptedKey", "cipherChaining"): V("key_chaining"),
    ("p:encryptedKey", "hashAlgorithm"): V("key_hash_alg"),
    ("p:encryptedKey", "encryptedVerifierHashInput"): enc_with_password("verifier_hash_input", V("verifier_input")),
    ("p:encryptedKey", "encryptedVerifierHashValue"): enc_with_password("verifier_hash_value", ("UNWRAP", ("F", "hash", V("key_hash_alg"), ("VEC", V("verifier_input"))))),
    ("p:encryptedKey", "encryptedKeyValue"): enc_with_password("key_value", V("pkg_key")),
}
# material that must be fresh and pairwise distinct random values
RANDOM = ["pkg_key", "pkg_salt", "key_salt", "verifier_input", "hmac_key"]
STREAMS = {"EncryptionInfo": "info", "EncryptedPackage": ENCRYPTED_PACKAGE}

# hash-chain shapes: order of the two concatenated operands at the three hash sites
KEY_DERIVATION_CHAIN = {"initial": ("salt", "password"), "spin": ("counter", "previous"), "final": ("previous", "block_key")}
PASSWORD_HASH_CHAIN = {"initial": ("salt", "password"), "spin": ("previous", "counter")}  # ECMA-376 18.2.29: H_i = H(H_{i-1} || LE32(i))
IV_SHAPE = ("salt", "block_key")
