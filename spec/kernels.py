"""Reference kernels for structural edits (source: the definition of inserting / deleting a band of
rows or columns in a grid; ECMA-376 does not define it, every spreadsheet implements it this way).
These are NOT taken from the code under analysis.

insert(num, root, off): an index at or beyond the insertion point moves by off.
band(num, root, off):   the deleted band is [root, root+off).
remove(num, root, off): an index beyond the band moves back by off; an index before it stays;
                        an index inside the band belongs to a deleted cell — for an object that
                        survives although one of its corners lay in the band (a partially covered
                        range) the corner must land next to the cut: root-1 or root. Anything else
                        (in particular num-off < root-1, or an underflow) relocates the object wrongly."""


def insert(num, root, off):
    if off != 0 and root != 0 and num >= root:
        return {num + off}
    if root == 0 or off == 0:
        return {num}
    return {num}


def band(num, root, off):
    if root == 0 or off == 0:
        return {0}
    return {1 if root <= num < root + off else 0}


def remove(num, root, off):
    if root == 0 or off == 0:
        return {num}
    if num < root:
        return {num}
    if num >= root + off:
        return {num - off}
    return {root - 1, root} - {0} or {root}


# representation offset of the stored scalar (stored = coordinate - k)
# x:Row / x:Column of VML ClientData are zero-based (MS-OI29500 / VML anchors), all others one-based.
ZERO_BASED = {"CommentColumnTarget": 1, "CommentRowTarget": 1}


def range_removed(corners, edit):
    """corners: dict start_col,start_row,end_col,end_row -> int or None; edit: (root_col, off_col, root_row, off_row).
    A range is deleted by an edit when, on an edited axis, every corner it has on that axis lies in the band."""
    rc, oc, rr, orow = edit
    res = False
    for root, off, a, b in ((rc, oc, "start_col", "end_col"), (rr, orow, "start_row", "end_row")):
        if root == 0 or off == 0:
            continue
        vals = [corners[a], corners[b]]
        if vals[0] is None:
            continue  # no coordinate on this axis (whole-row / whole-column reference)
        vs = [v for v in vals if v is not None]
        if all(root <= v < root + off for v in vs):
            res = True
    return res


def sheet_match(ignore, ref_is_empty, edited_is_own, ref_is_edited):
    """Does a reference with sheet qualifier `ref` belong to the edited sheet?"""
    return bool(ignore or (ref_is_empty and edited_is_own) or ref_is_edited)


# What decides whether an object "lies inside the removed band" (C07: "deleting exactly what lay inside the removed band"):
# the cell / row / column / range the object is attached to - not where it happens to be displayed.
POSITION_FIELDS = {
    "structs::comment::Comment": {"coordinate"},              # a comment belongs to its cell; its pop-up box anchor is presentation
    "structs::column::Column": {"col_num"},
    "structs::row::Row": {"row_num"},
    "structs::conditional_formatting::ConditionalFormatting": {"sequence_of_references"},
}
