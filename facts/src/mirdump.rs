// MIR facts: one JSON object per body.
use crate::json::{arr, esc, Obj};
use crate::Ctx;
use rustc_hir::def::DefKind;
use rustc_middle::mir::{
    AggregateKind, BasicBlock, Body, BorrowKind, Const, ConstValue, Operand, Place, PlaceElem,
    ProjectionElem, Rvalue, StatementKind, TerminatorKind,
};
use rustc_middle::ty::{self, Instance, Ty, TyCtxt, TypingEnv};
use rustc_span::def_id::{DefId, LocalDefId};

pub fn fn_common<'tcx>(cx: &mut Ctx<'tcx>, did: DefId, mut o: Obj) -> Obj {
    let tcx = cx.tcx;
    let kind = tcx.def_kind(did);
    o = o.str("def", &tcx.def_path_str(did));
    o = o.str("kind", &format!("{:?}", kind).split(' ').next().unwrap_or("").replace('{', ""));
    let span = tcx.def_span(did);
    let (file, line) = cx.loc(span);
    o = o.str("file", &file).num("line", line as i128);
    o = o.flag("x", span.from_expansion());
    if matches!(kind, DefKind::Fn | DefKind::AssocFn) {
        let vis = tcx.visibility(did);
        let v = match vis {
            ty::Visibility::Public => "pub".to_string(),
            ty::Visibility::Restricted(m) => {
                if m.is_crate_root() {
                    "crate".to_string()
                } else {
                    format!("in:{}", tcx.def_path_str(m))
                }
            }
        };
        o = o.str("vis", &v);
        o = o.str("name", tcx.item_name(did).as_str());
    }
    // names of the type parameters in scope (parent's first), in the order of generic type arguments
    if matches!(kind, DefKind::Fn | DefKind::AssocFn) {
        let mut names: Vec<String> = Vec::new();
        let g = tcx.generics_of(did);
        let mut chain = Vec::new();
        let mut cur = Some(g);
        while let Some(gg) = cur {
            chain.push(gg);
            cur = gg.parent.map(|p| tcx.generics_of(p));
        }
        chain.reverse();
        for gg in chain {
            for p in &gg.own_params {
                if let ty::GenericParamDefKind::Type { .. } = p.kind {
                    names.push(p.name.to_string());
                }
            }
        }
        if !names.is_empty() {
            o = o.raw("generics", &crate::json::str_arr(&names));
        }
    }
    // parent impl / trait
    if matches!(kind, DefKind::AssocFn | DefKind::AssocConst { .. }) {
        let parent = tcx.parent(did);
        match tcx.def_kind(parent) {
            DefKind::Impl { .. } => {
                let self_ty = tcx.type_of(parent).instantiate_identity().skip_norm_wip();
                o = o.str("self_ty", &format!("{}", self_ty));
                if let Some(tr) = tcx.impl_opt_trait_ref(parent) {
                    let tr = tr.instantiate_identity().skip_norm_wip();
                    o = o.str("trait", &tcx.def_path_str(tr.def_id));
                }
                o = o.flag("derived", tcx.is_automatically_derived(parent));
            }
            DefKind::Trait => {
                o = o.str("in_trait", &tcx.def_path_str(parent));
            }
            _ => {}
        }
    }
    o
}

pub fn dump<'tcx>(cx: &mut Ctx<'tcx>) -> String {
    let tcx = cx.tcx;
    let mut out = String::new();
    let mut keys: Vec<LocalDefId> = tcx.mir_keys(()).iter().copied().collect();
    keys.sort_by_key(|k| tcx.def_path_str(k.to_def_id()));
    for ldid in keys {
        let did = ldid.to_def_id();
        let kind = tcx.def_kind(did);
        if !matches!(kind, DefKind::Fn | DefKind::AssocFn | DefKind::Closure) {
            continue;
        }
        let body: &Body<'tcx> = tcx.optimized_mir(did);
        let line = dump_body(cx, did, body);
        out.push_str(&line);
        out.push('\n');
    }
    out
}

fn dump_body<'tcx>(cx: &mut Ctx<'tcx>, did: DefId, body: &Body<'tcx>) -> String {
    let tcx = cx.tcx;
    let mut o = fn_common(cx, did, Obj::new());
    o = o.num("argc", body.arg_count as i128);
    // locals
    let mut names: Vec<Option<String>> = vec![None; body.local_decls.len()];
    let mut dbg: Vec<String> = Vec::new();
    for vdi in &body.var_debug_info {
        if let rustc_middle::mir::VarDebugInfoContents::Place(p) = &vdi.value {
            if p.projection.is_empty() {
                names[p.local.as_usize()] = Some(vdi.name.to_string());
            } else {
                // captured upvars etc.
                let pj = place_json(cx, body, p);
                dbg.push(Obj::new().str("name", vdi.name.as_str()).raw("place", &pj).done());
            }
        }
    }
    let mut locals = Vec::new();
    for (i, decl) in body.local_decls.iter_enumerated() {
        let t = cx.ty(decl.ty);
        let mut lo = Obj::new().num("t", t as i128);
        if let Some(n) = &names[i.as_usize()] {
            lo = lo.str("n", n);
        }
        lo = lo.flag("mut", decl.mutability.is_mut());
        locals.push(lo.done());
    }
    o = o.raw("locals", &arr(&locals));
    if !dbg.is_empty() {
        o = o.raw("dbg", &arr(&dbg));
    }
    let typing_env = TypingEnv::post_analysis(tcx, did);
    let mut blocks = Vec::new();
    for (_bb, data) in body.basic_blocks.iter_enumerated() {
        let mut stmts = Vec::new();
        for st in &data.statements {
            match &st.kind {
                StatementKind::Assign(box (place, rv)) => {
                    let so = Obj::new()
                        .str("k", "assign")
                        .raw("lhs", &place_json(cx, body, place))
                        .raw("rv", &rvalue_json(cx, body, rv, typing_env))
                        .num("ln", cx.line(st.source_info.span) as i128)
                        .flag("x", st.source_info.span.from_expansion());
                    stmts.push(so.done());
                }
                StatementKind::SetDiscriminant { place, variant_index } => {
                    let so = Obj::new()
                        .str("k", "setdiscr")
                        .raw("lhs", &place_json(cx, body, place))
                        .num("variant", variant_index.as_usize() as i128);
                    stmts.push(so.done());
                }
                StatementKind::StorageDead(l) => {
                    stmts.push(Obj::new().str("k", "dead").num("l", l.as_usize() as i128).done());
                }
                _ => {}
            }
        }
        let mut bo = Obj::new().raw("s", &arr(&stmts));
        bo = bo.flag("cleanup", data.is_cleanup);
        let term = data.terminator();
        let ln = cx.line(term.source_info.span) as i128;
        let tx = term.source_info.span.from_expansion();
        let t = match &term.kind {
            TerminatorKind::Goto { target } => Obj::new().str("k", "goto").num("t", bbn(*target)),
            TerminatorKind::SwitchInt { discr, targets } => {
                let mut ts = Vec::new();
                for (v, b) in targets.iter() {
                    ts.push(format!("[{},{}]", v, bbn(b)));
                }
                Obj::new()
                    .str("k", "switch")
                    .raw("op", &operand_json(cx, body, discr, typing_env))
                    .raw("targets", &arr(&ts))
                    .num("otherwise", bbn(targets.otherwise()))
            }
            TerminatorKind::Return => Obj::new().str("k", "return"),
            TerminatorKind::Unreachable => Obj::new().str("k", "unreachable"),
            TerminatorKind::UnwindResume => Obj::new().str("k", "resume"),
            TerminatorKind::UnwindTerminate(_) => Obj::new().str("k", "abort"),
            TerminatorKind::Drop { place, target, unwind, .. } => {
                let mut d = Obj::new()
                    .str("k", "drop")
                    .raw("place", &place_json(cx, body, place))
                    .num("t", bbn(*target));
                if let rustc_middle::mir::UnwindAction::Cleanup(b) = unwind {
                    d = d.num("unwind", bbn(*b));
                }
                d
            }
            TerminatorKind::Call { func, args, destination, target, unwind, fn_span, .. } => {
                let mut c = Obj::new().str("k", "call");
                c = callee_json(cx, body, func, typing_env, c);
                let mut av = Vec::new();
                for a in args.iter() {
                    av.push(operand_json(cx, body, &a.node, typing_env));
                }
                c = c.raw("args", &arr(&av)).raw("dest", &place_json(cx, body, destination));
                if let Some(t) = target {
                    c = c.num("t", bbn(*t));
                }
                if let rustc_middle::mir::UnwindAction::Cleanup(b) = unwind {
                    c = c.num("unwind", bbn(*b));
                }
                let _ = fn_span;
                c
            }
            TerminatorKind::TailCall { func, args, .. } => {
                let mut c = Obj::new().str("k", "tailcall");
                c = callee_json(cx, body, func, typing_env, c);
                let mut av = Vec::new();
                for a in args.iter() {
                    av.push(operand_json(cx, body, &a.node, typing_env));
                }
                c.raw("args", &arr(&av))
            }
            TerminatorKind::Assert { cond, expected, msg, target, unwind } => {
                let m = format!("{:?}", msg);
                let kind = m.split(|c: char| c == '(' || c == ' ' || c == '{').next().unwrap_or("").to_string();
                let mut a = Obj::new()
                    .str("k", "assert")
                    .raw("cond", &operand_json(cx, body, cond, typing_env))
                    .boolean("expected", *expected)
                    .str("msg", &kind)
                    .str("detail", &m)
                    .num("t", bbn(*target));
                if let rustc_middle::mir::UnwindAction::Cleanup(b) = unwind {
                    a = a.num("unwind", bbn(*b));
                }
                a
            }
            TerminatorKind::FalseEdge { real_target, .. } => Obj::new().str("k", "goto").num("t", bbn(*real_target)),
            TerminatorKind::FalseUnwind { real_target, .. } => Obj::new().str("k", "goto").num("t", bbn(*real_target)),
            other => Obj::new().str("k", "other").str("detail", &format!("{:?}", other)),
        };
        let t = t.num("ln", ln).flag("x", tx);
        bo = bo.raw("t", &t.done());
        blocks.push(bo.done());
    }
    o = o.raw("blocks", &arr(&blocks));
    // promoted constants (e.g. `&0`): constants assigned inside each promoted body
    if body.source.promoted.is_none() && !matches!(tcx.def_kind(did), DefKind::Closure) || true {
        let proms = tcx.promoted_mir(did);
        if !proms.is_empty() {
            let mut pv = Vec::new();
            for pb in proms.iter() {
                let penv = TypingEnv::post_analysis(tcx, did);
                let mut cs = Vec::new();
                for data in pb.basic_blocks.iter() {
                    for st in &data.statements {
                        if let StatementKind::Assign(box (_, rv)) = &st.kind {
                            match rv {
                                Rvalue::Use(Operand::Constant(c), _) => cs.push(const_json(cx, &c.const_, penv)),
                                Rvalue::Aggregate(_, ops) => {
                                    for op in ops.iter() {
                                        if let Operand::Constant(c) = op {
                                            cs.push(const_json(cx, &c.const_, penv));
                                        }
                                    }
                                }
                                _ => {}
                            }
                        }
                    }
                    // constants handed to a const fn in the promoted body, e.g. RangeInclusive::new(1, 16384)
                    if let Some(term) = &data.terminator {
                        if let TerminatorKind::Call { args, .. } = &term.kind {
                            for a in args.iter() {
                                if let Operand::Constant(c) = &a.node {
                                    cs.push(const_json(cx, &c.const_, penv));
                                }
                            }
                        }
                    }
                }
                pv.push(arr(&cs));
            }
            o = o.raw("promoted", &arr(&pv));
        }
    }
    o.done()
}

fn bbn(b: BasicBlock) -> i128 {
    b.as_usize() as i128
}

fn callee_json<'tcx>(
    cx: &mut Ctx<'tcx>,
    body: &Body<'tcx>,
    func: &Operand<'tcx>,
    typing_env: TypingEnv<'tcx>,
    mut c: Obj,
) -> Obj {
    let tcx = cx.tcx;
    let fty = func.ty(&body.local_decls, tcx);
    match fty.kind() {
        ty::FnDef(did, args) => {
            let orig = tcx.def_path_str(*did);
            let (resolved, kind) = resolve(tcx, typing_env, *did, args);
            let rs = tcx.def_path_str(resolved);
            c = c.str("fn", &rs);
            if rs != orig {
                c = c.str("orig", &orig);
            }
            if kind != "item" {
                c = c.str("inst", kind);
            }
            // generic args (types only)
            let mut tys = Vec::new();
            for a in args.iter() {
                if let Some(t) = a.as_type() {
                    tys.push(cx.ty(t).to_string());
                }
            }
            if !tys.is_empty() {
                c = c.raw("targs", &arr(&tys));
            }
            // impl self type of the resolved callee, if it is an associated fn in an impl
            if let Some(parent) = tcx.opt_parent(resolved) {
                if let DefKind::Impl { .. } = tcx.def_kind(parent) {
                    let st = tcx.type_of(parent).instantiate_identity().skip_norm_wip();
                    c = c.str("impl_self", &format!("{}", st));
                }
            }
        }
        _ => {
            c = c.raw("fnop", &operand_json(cx, body, func, typing_env));
            let t = cx.ty(fty);
            c = c.num("fnty", t as i128);
        }
    }
    c
}

pub fn resolve<'tcx>(
    tcx: TyCtxt<'tcx>,
    typing_env: TypingEnv<'tcx>,
    did: DefId,
    args: ty::GenericArgsRef<'tcx>,
) -> (DefId, &'static str) {
    if tcx.generics_of(did).count() != args.len() {
        return (did, "unresolved");
    }
    match Instance::try_resolve(tcx, typing_env, did, args) {
        Ok(Some(inst)) => {
            let k = match inst.def {
                ty::InstanceKind::Item(_) => "item",
                ty::InstanceKind::Virtual(..) => "virtual",
                ty::InstanceKind::ClosureOnceShim { .. } => "closure_once",
                ty::InstanceKind::FnPtrShim(..) => "fnptr_shim",
                ty::InstanceKind::DropGlue(..) => "drop_glue",
                ty::InstanceKind::CloneShim(..) => "clone_shim",
                ty::InstanceKind::Intrinsic(..) => "intrinsic",
                _ => "shim",
            };
            (inst.def_id(), k)
        }
        _ => (did, "unresolved"),
    }
}

pub fn place_json<'tcx>(cx: &mut Ctx<'tcx>, body: &Body<'tcx>, place: &Place<'tcx>) -> String {
    let tcx = cx.tcx;
    let mut o = Obj::new().num("l", place.local.as_usize() as i128);
    if !place.projection.is_empty() {
        let mut pj = Vec::new();
        let mut pty = rustc_middle::mir::PlaceTy::from_ty(body.local_decls[place.local].ty);
        for elem in place.projection.iter() {
            let elem: PlaceElem<'tcx> = elem;
            match elem {
                ProjectionElem::Deref => pj.push("\"*\"".to_string()),
                ProjectionElem::Field(f, _fty) => {
                    let (name, of) = field_name(tcx, pty.ty, pty.variant_index, f.as_usize());
                    pj.push(Obj::new().str("f", &name).str("of", &of).done());
                }
                ProjectionElem::Index(l) => {
                    pj.push(Obj::new().num("idx", l.as_usize() as i128).done());
                }
                ProjectionElem::ConstantIndex { offset, from_end, .. } => {
                    pj.push(Obj::new().num("ci", offset as i128).flag("from_end", from_end).done());
                }
                ProjectionElem::Subslice { .. } => pj.push("\"sub\"".to_string()),
                ProjectionElem::Downcast(name, vi) => {
                    let n = name.map(|s| s.to_string()).unwrap_or_else(|| format!("{}", vi.as_usize()));
                    pj.push(Obj::new().str("dc", &n).done());
                }
                _ => pj.push("\"cast\"".to_string()),
            }
            pty = pty.projection_ty(tcx, elem);
        }
        o = o.raw("pr", &arr(&pj));
    }
    o.done()
}

fn field_name<'tcx>(
    tcx: TyCtxt<'tcx>,
    ty: Ty<'tcx>,
    variant: Option<rustc_abi::VariantIdx>,
    idx: usize,
) -> (String, String) {
    match ty.kind() {
        ty::Adt(adt, _) => {
            let v = match variant {
                Some(vi) => adt.variant(vi),
                None => {
                    if adt.is_enum() {
                        return (format!("{}", idx), tcx.def_path_str(adt.did()));
                    }
                    adt.non_enum_variant()
                }
            };
            let name = v
                .fields
                .iter()
                .nth(idx)
                .map(|f| f.name.to_string())
                .unwrap_or_else(|| format!("{}", idx));
            (name, tcx.def_path_str(adt.did()))
        }
        ty::Tuple(_) => (format!("{}", idx), "tuple".to_string()),
        ty::Closure(did, _) => (format!("{}", idx), format!("closure:{}", tcx.def_path_str(*did))),
        _ => (format!("{}", idx), format!("{}", ty)),
    }
}

pub fn operand_json<'tcx>(
    cx: &mut Ctx<'tcx>,
    body: &Body<'tcx>,
    op: &Operand<'tcx>,
    typing_env: TypingEnv<'tcx>,
) -> String {
    match op {
        Operand::Copy(p) => Obj::new().raw("p", &place_json(cx, body, p)).done(),
        Operand::Move(p) => Obj::new().raw("p", &place_json(cx, body, p)).num("mv", 1).done(),
        Operand::Constant(c) => const_json(cx, &c.const_, typing_env),
        _ => Obj::new().str("c", "runtime_checks").done(),
    }
}

pub fn const_json<'tcx>(cx: &mut Ctx<'tcx>, c: &Const<'tcx>, typing_env: TypingEnv<'tcx>) -> String {
    let tcx = cx.tcx;
    let ty = c.ty();
    let mut o = Obj::new();
    let t = cx.ty(ty);
    o = o.num("t", t as i128);
    match ty.kind() {
        ty::FnDef(did, args) => {
            let (r, _) = resolve(tcx, typing_env, *did, args);
            o = o.str("cfn", &tcx.def_path_str(r));
            return o.done();
        }
        ty::Closure(did, _) => {
            o = o.str("cclosure", &tcx.def_path_str(*did));
            return o.done();
        }
        _ => {}
    }
    // promoted / unevaluated
    if let Const::Unevaluated(uv, _) = c {
        if let Some(p) = uv.promoted {
            o = o.num("promoted", p.as_usize() as i128);
        } else {
            o = o.str("cdef", &tcx.def_path_str(uv.def));
        }
    }
    let is_intlike = ty.is_integral() || ty.is_bool() || ty.is_char();
    if is_intlike {
        if let Some(si) = c.try_eval_scalar_int(tcx, typing_env) {
            let size = si.size();
            let bits = si.to_bits(size);
            let v: i128 = if ty.is_signed() {
                size.sign_extend(bits) as i128
            } else {
                bits as i128
            };
            o = o.num("i", v);
            return o.done();
        }
    }
    // &str / &[u8]
    let peeled = ty.peel_refs();
    let is_str = peeled.is_str();
    let is_bytes = match peeled.kind() {
        ty::Slice(e) => *e == tcx.types.u8,
        ty::Array(e, _) => *e == tcx.types.u8,
        _ => false,
    };
    if ty.is_ref() && (is_str || is_bytes) {
        if let Ok(val) = c.eval(tcx, typing_env, rustc_span::DUMMY_SP) {
            let bytes: Option<&[u8]> = match val {
                ConstValue::Slice { .. } | ConstValue::Indirect { .. } => {
                    if matches!(peeled.kind(), ty::Array(..)) {
                        None
                    } else {
                        val.try_get_slice_bytes_for_diagnostics(tcx)
                    }
                }
                _ => None,
            };
            if let Some(b) = bytes {
                o = o.str("s", &String::from_utf8_lossy(b));
                if is_bytes {
                    let v: Vec<String> = b.iter().map(|c| c.to_string()).collect();
                    o = o.raw("bytes", &arr(&v));
                }
                return o.done();
            }
        }
    }
    o = o.str("c", &format!("{}", c));
    o.done()
}

fn rvalue_json<'tcx>(
    cx: &mut Ctx<'tcx>,
    body: &Body<'tcx>,
    rv: &Rvalue<'tcx>,
    typing_env: TypingEnv<'tcx>,
) -> String {
    let tcx = cx.tcx;
    match rv {
        Rvalue::Use(op, _) => Obj::new().str("k", "use").raw("op", &operand_json(cx, body, op, typing_env)).done(),
        Rvalue::Repeat(op, _) => Obj::new().str("k", "repeat").raw("op", &operand_json(cx, body, op, typing_env)).done(),
        Rvalue::Ref(_, bk, p) => {
            let m = matches!(bk, BorrowKind::Mut { .. });
            Obj::new().str("k", "ref").flag("mut", m).raw("place", &place_json(cx, body, p)).done()
        }
        Rvalue::RawPtr(_, p) => Obj::new().str("k", "rawptr").raw("place", &place_json(cx, body, p)).done(),
        Rvalue::Cast(kind, op, ty) => {
            let t = cx.ty(*ty);
            Obj::new()
                .str("k", "cast")
                .str("ck", &format!("{:?}", kind).split('(').next().unwrap_or("").to_string())
                .raw("op", &operand_json(cx, body, op, typing_env))
                .num("t", t as i128)
                .done()
        }
        Rvalue::BinaryOp(op, box (a, b)) => Obj::new()
            .str("k", "bin")
            .str("op", &format!("{:?}", op))
            .raw("a", &operand_json(cx, body, a, typing_env))
            .raw("b", &operand_json(cx, body, b, typing_env))
            .done(),
        Rvalue::UnaryOp(op, a) => Obj::new()
            .str("k", "un")
            .str("op", &format!("{:?}", op))
            .raw("a", &operand_json(cx, body, a, typing_env))
            .done(),
        Rvalue::Discriminant(p) => Obj::new().str("k", "discr").raw("place", &place_json(cx, body, p)).done(),
        Rvalue::Aggregate(box kind, ops) => {
            let mut o = Obj::new().str("k", "agg");
            match kind {
                AggregateKind::Array(_) => o = o.str("ak", "array"),
                AggregateKind::Tuple => o = o.str("ak", "tuple"),
                AggregateKind::Adt(did, vi, _, _, _) => {
                    let adt = tcx.adt_def(*did);
                    let v = adt.variant(*vi);
                    o = o.str("ak", "adt").str("adt", &tcx.def_path_str(*did)).str("variant", v.name.as_str());
                    let fnames: Vec<String> = v.fields.iter().map(|f| f.name.to_string()).collect();
                    o = o.raw("fields", &crate::json::str_arr(&fnames));
                }
                AggregateKind::Closure(did, _) => {
                    o = o.str("ak", "closure").str("closure", &tcx.def_path_str(*did));
                }
                _ => o = o.str("ak", "other"),
            }
            let mut v = Vec::new();
            for op in ops.iter() {
                v.push(operand_json(cx, body, op, typing_env));
            }
            o.raw("ops", &arr(&v)).done()
        }
        Rvalue::CopyForDeref(p) => Obj::new()
            .str("k", "use")
            .raw("op", &Obj::new().raw("p", &place_json(cx, body, p)).done())
            .done(),
        Rvalue::ThreadLocalRef(d) => Obj::new().str("k", "tls").str("def", &tcx.def_path_str(*d)).done(),
        _ => Obj::new().str("k", "other").str("detail", &esc(&format!("{:?}", rv))).done(),
    }
}
