// Typed HIR facts: one JSON object per body owner (fn / assoc fn / const / static), closures inlined.
use crate::json::{arr, Obj};
use crate::mirdump::{fn_common, resolve};
use crate::Ctx;
use rustc_ast::LitKind;
use rustc_hir as hir;
use rustc_hir::def::{DefKind, Res};
use rustc_hir::{Expr, ExprKind, Pat, PatExprKind, PatKind, QPath, StmtKind};
use rustc_middle::ty::{self, TypeckResults, TypingEnv};
use rustc_span::def_id::DefId;
use rustc_span::hygiene::{ExpnId, ExpnKind};

struct W<'a, 'tcx> {
    cx: &'a mut Ctx<'tcx>,
    tr: &'tcx TypeckResults<'tcx>,
    owner: DefId,
    env: TypingEnv<'tcx>,
}

pub fn dump<'tcx>(cx: &mut Ctx<'tcx>) -> String {
    let tcx = cx.tcx;
    let mut out = String::new();
    let mut owners: Vec<rustc_span::def_id::LocalDefId> = tcx.hir_body_owners().collect();
    owners.sort_by_key(|k| tcx.def_path_str(k.to_def_id()));
    for ldid in owners {
        let did = ldid.to_def_id();
        let kind = tcx.def_kind(did);
        if !matches!(kind, DefKind::Fn | DefKind::AssocFn | DefKind::Const { .. } | DefKind::Static { .. } | DefKind::AssocConst { .. }) {
            continue;
        }
        let body = tcx.hir_body_owned_by(ldid);
        let tr = tcx.typeck(ldid);
        let mut o = fn_common(cx, did, Obj::new());
        let env = TypingEnv::post_analysis(tcx, did);
        let mut w = W { cx, tr, owner: did, env };
        let mut params = Vec::new();
        for p in body.params {
            params.push(w.pat(p.pat));
        }
        o = o.raw("params", &arr(&params));
        let root = ExpnId::root();
        let e = w.expr(body.value, root);
        o = o.raw("body", &e);
        out.push_str(&o.done());
        out.push('\n');
    }
    out
}

impl<'a, 'tcx> W<'a, 'tcx> {
    fn ty_of(&mut self, e: &Expr<'tcx>) -> i128 {
        let t = self.tr.expr_ty_adjusted(e);
        self.cx.ty(t) as i128
    }
    fn ty_unadj(&mut self, e: &Expr<'tcx>) -> i128 {
        let t = self.tr.expr_ty(e);
        self.cx.ty(t) as i128
    }

    fn macro_info(&mut self, e: &Expr<'tcx>, parent: ExpnId, mut o: Obj) -> (Obj, ExpnId) {
        let expn = e.span.ctxt().outer_expn();
        if expn != parent && expn != ExpnId::root() {
            // walk outwards to the outermost expansion below `parent`
            let mut names = Vec::new();
            let mut cur = expn;
            let mut callsite = e.span;
            while cur != parent && cur != ExpnId::root() {
                let data = cur.expn_data();
                match data.kind {
                    ExpnKind::Macro(_, name) => names.push(name.to_string()),
                    ExpnKind::Desugaring(d) => names.push(format!("desugar:{:?}", d)),
                    _ => names.push("other".to_string()),
                }
                callsite = data.call_site;
                cur = data.call_site.ctxt().outer_expn();
            }
            names.reverse();
            if !names.iter().all(|n| n.starts_with("desugar:")) {
                o = o.raw("mac", &crate::json::str_arr(&names));
                if let Ok(sn) = self.cx.tcx.sess.source_map().span_to_snippet(callsite) {
                    if sn.len() <= 400 {
                        o = o.str("src", &sn);
                    }
                }
            }
        }
        (o, expn)
    }

    fn qpath_def(&mut self, qpath: &QPath<'tcx>, hir_id: hir::HirId, mut o: Obj) -> Obj {
        let tcx = self.cx.tcx;
        let res = self.tr.qpath_res(qpath, hir_id);
        match res {
            Res::Local(id) => {
                o = o.str("local", tcx.hir_name(id).as_str()).num("lid", id.local_id.as_usize() as i128);
            }
            Res::Def(kind, did) => {
                let mut path = tcx.def_path_str(did);
                let mut resolved = did;
                if matches!(kind, DefKind::Fn | DefKind::AssocFn) {
                    let args = self.tr.node_args(hir_id);
                    let (r, _) = resolve(tcx, self.env, did, args);
                    resolved = r;
                    let rp = tcx.def_path_str(r);
                    if rp != path {
                        o = o.str("orig", &path);
                        path = rp;
                    }
                }
                o = o.str("def", &path).str(
                    "dk",
                    &format!("{:?}", kind).split(|c: char| c == '(' || c == ' ' || c == '{').next().unwrap_or("").to_string(),
                );
                if let DefKind::Ctor(..) = kind {
                    // parent variant / struct
                    let p = tcx.parent(did);
                    o = o.str("ctor_of", &tcx.def_path_str(p));
                }
                let _ = resolved;
            }
            Res::SelfCtor(_) => {
                o = o.str("def", "Self");
            }
            _ => {
                o = o.str("res", &format!("{:?}", res));
            }
        }
        o
    }

    fn block(&mut self, b: &hir::Block<'tcx>, parent: ExpnId) -> String {
        let mut stmts = Vec::new();
        for s in b.stmts {
            match s.kind {
                StmtKind::Let(l) => {
                    let mut o = Obj::new().str("k", "let").num("ln", self.cx.line(s.span) as i128).raw("pat", &self.pat(l.pat));
                    if let Some(i) = l.init {
                        o = o.raw("init", &self.expr(i, parent));
                    }
                    if let Some(e) = l.els {
                        o = o.raw("els", &self.block(e, parent));
                    }
                    stmts.push(o.done());
                }
                StmtKind::Expr(e) => stmts.push(self.expr(e, parent)),
                StmtKind::Semi(e) => {
                    let inner = self.expr(e, parent);
                    stmts.push(Obj::new().str("k", "semi").raw("e", &inner).done());
                }
                StmtKind::Item(_) => {}
            }
        }
        let mut o = Obj::new().str("k", "block").raw("stmts", &arr(&stmts));
        if let Some(e) = b.expr {
            o = o.raw("expr", &self.expr(e, parent));
        }
        o.done()
    }

    fn lit(&mut self, lit: &hir::Lit, mut o: Obj) -> Obj {
        match &lit.node {
            LitKind::Str(s, _) => o = o.str("lt", "str").str("v", s.as_str()),
            LitKind::ByteStr(b, _) => {
                let bs = b.as_byte_str();
                o = o.str("lt", "bytes").str("v", &String::from_utf8_lossy(bs));
                if std::str::from_utf8(bs).is_err() || bs.iter().any(|c| *c < 0x20) {
                    let v: Vec<String> = bs.iter().map(|c| c.to_string()).collect();
                    o = o.raw("raw", &arr(&v));
                }
            }
            LitKind::CStr(b, _) => o = o.str("lt", "cstr").str("v", &String::from_utf8_lossy(b.as_byte_str())),
            LitKind::Byte(b) => o = o.str("lt", "byte").num("v", *b as i128),
            LitKind::Char(c) => o = o.str("lt", "char").str("v", &c.to_string()),
            LitKind::Int(i, _) => o = o.str("lt", "int").num("v", i.get() as i128),
            LitKind::Float(s, _) => o = o.str("lt", "float").str("v", s.as_str()),
            LitKind::Bool(b) => o = o.str("lt", "bool").boolean("v", *b),
            LitKind::Err(_) => o = o.str("lt", "err"),
        }
        o
    }

    fn pat(&mut self, p: &Pat<'tcx>) -> String {
        let tcx = self.cx.tcx;
        match &p.kind {
            PatKind::Wild | PatKind::Missing | PatKind::Never => Obj::new().str("k", "wild").done(),
            PatKind::Binding(mode, id, ident, sub) => {
                let mut o = Obj::new()
                    .str("k", "bind")
                    .str("name", ident.as_str())
                    .num("lid", id.local_id.as_usize() as i128);
                let _ = mode;
                let t = self.tr.pat_ty(p);
                o = o.num("t", self.cx.ty(t) as i128);
                if let Some(s) = sub {
                    o = o.raw("sub", &self.pat(s));
                }
                o.done()
            }
            PatKind::Struct(qpath, fields, _) => {
                let mut o = Obj::new().str("k", "struct");
                o = self.qpath_def(qpath, p.hir_id, o);
                let mut fs = Vec::new();
                for f in fields.iter() {
                    fs.push(Obj::new().str("name", f.ident.as_str()).raw("pat", &self.pat(f.pat)).done());
                }
                o.raw("fields", &arr(&fs)).done()
            }
            PatKind::TupleStruct(qpath, subs, _) => {
                let mut o = Obj::new().str("k", "ts");
                o = self.qpath_def(qpath, p.hir_id, o);
                let v: Vec<String> = subs.iter().map(|s| self.pat(s)).collect();
                o.raw("subs", &arr(&v)).done()
            }
            PatKind::Or(subs) => {
                let v: Vec<String> = subs.iter().map(|s| self.pat(s)).collect();
                Obj::new().str("k", "or").raw("subs", &arr(&v)).done()
            }
            PatKind::Tuple(subs, _) => {
                let v: Vec<String> = subs.iter().map(|s| self.pat(s)).collect();
                Obj::new().str("k", "tuple").raw("subs", &arr(&v)).done()
            }
            PatKind::Box(s) | PatKind::Deref(s) | PatKind::Ref(s, _, _) => {
                Obj::new().str("k", "ref").raw("sub", &self.pat(s)).done()
            }
            PatKind::Expr(pe) => match &pe.kind {
                PatExprKind::Lit { lit, negated } => {
                    let o = Obj::new().str("k", "lit").flag("neg", *negated);
                    self.lit(lit, o).done()
                }
                PatExprKind::Path(qpath) => {
                    let o = Obj::new().str("k", "path");
                    self.qpath_def(qpath, pe.hir_id, o).done()
                }
            },
            PatKind::Guard(s, _) => self.pat(s),
            PatKind::Range(..) => Obj::new().str("k", "range").done(),
            PatKind::Slice(a, m, b) => {
                let mut v: Vec<String> = a.iter().map(|s| self.pat(s)).collect();
                if let Some(m) = m {
                    v.push(self.pat(m));
                }
                v.extend(b.iter().map(|s| self.pat(s)));
                Obj::new().str("k", "slice").raw("subs", &arr(&v)).done()
            }
            PatKind::Err(_) => Obj::new().str("k", "err").done(),
        }
        .to_string()
        + {
            let _ = tcx;
            ""
        }
    }

    fn exprs(&mut self, es: &[Expr<'tcx>], parent: ExpnId) -> String {
        let v: Vec<String> = es.iter().map(|e| self.expr(e, parent)).collect();
        arr(&v)
    }

    fn expr(&mut self, e: &Expr<'tcx>, parent: ExpnId) -> String {
        let tcx = self.cx.tcx;
        // transparent wrappers
        if let ExprKind::DropTemps(inner) = e.kind {
            return self.expr(inner, parent);
        }
        if let ExprKind::Use(inner, _) = e.kind {
            return self.expr(inner, parent);
        }
        let mut o = Obj::new();
        let ln = self.cx.line(e.span) as i128;
        let (o2, expn) = self.macro_info(e, parent, Obj::new());
        let mac_part = o2;
        let p = expn;
        o = match &e.kind {
            ExprKind::Call(f, args) => {
                o = o.str("k", "call").num("ln", ln).num("t", self.ty_unadj(e));
                if let ExprKind::Path(qpath) = &f.kind {
                    o = self.qpath_def(qpath, f.hir_id, o);
                } else {
                    o = o.raw("callee", &self.expr(f, p));
                }
                o.raw("args", &self.exprs(args, p))
            }
            ExprKind::MethodCall(seg, recv, args, _) => {
                o = o.str("k", "mcall").num("ln", ln).num("t", self.ty_unadj(e)).str("name", seg.ident.as_str());
                if let Some(did) = self.tr.type_dependent_def_id(e.hir_id) {
                    let orig = tcx.def_path_str(did);
                    let gargs = self.tr.node_args(e.hir_id);
                    let (r, _) = resolve(tcx, self.env, did, gargs);
                    let rp = tcx.def_path_str(r);
                    if rp != orig {
                        o = o.str("orig", &orig);
                    }
                    o = o.str("def", &rp);
                }
                o = o.num("rt", self.ty_of(recv));
                o.raw("recv", &self.expr(recv, p)).raw("args", &self.exprs(args, p))
            }
            ExprKind::Field(base, ident) => {
                o = o.str("k", "field").num("ln", ln).str("name", ident.as_str()).num("t", self.ty_unadj(e));
                let bt = self.tr.expr_ty_adjusted(base).peel_refs();
                if let ty::Adt(adt, _) = bt.kind() {
                    o = o.str("of", &tcx.def_path_str(adt.did()));
                }
                o.raw("base", &self.expr(base, p))
            }
            ExprKind::Path(qpath) => {
                o = o.str("k", "path").num("ln", ln).num("t", self.ty_unadj(e));
                self.qpath_def(qpath, e.hir_id, o)
            }
            ExprKind::Lit(lit) => {
                o = o.str("k", "lit").num("ln", ln);
                self.lit(lit, o)
            }
            ExprKind::Binary(op, l, r) => o
                .str("k", "bin")
                .num("ln", ln)
                .str("op", op.node.as_str())
                .raw("l", &self.expr(l, p))
                .raw("r", &self.expr(r, p)),
            ExprKind::Unary(op, x) => o
                .str("k", "un")
                .num("ln", ln)
                .str("op", &format!("{:?}", op))
                .num("t", self.ty_unadj(e))
                .raw("e", &self.expr(x, p)),
            ExprKind::Assign(l, r, _) => {
                o.str("k", "assign").num("ln", ln).raw("l", &self.expr(l, p)).raw("r", &self.expr(r, p))
            }
            ExprKind::AssignOp(op, l, r) => o
                .str("k", "assignop")
                .num("ln", ln)
                .str("op", op.node.as_str())
                .raw("l", &self.expr(l, p))
                .raw("r", &self.expr(r, p)),
            ExprKind::AddrOf(_, m, x) => o
                .str("k", "ref")
                .num("ln", ln)
                .flag("mut", m.is_mut())
                .raw("e", &self.expr(x, p)),
            ExprKind::Cast(x, _) | ExprKind::Type(x, _) => {
                o.str("k", "cast").num("ln", ln).num("t", self.ty_unadj(e)).raw("e", &self.expr(x, p))
            }
            ExprKind::Index(a, i, _) => o
                .str("k", "index")
                .num("ln", ln)
                .num("t", self.ty_unadj(e))
                .raw("base", &self.expr(a, p))
                .raw("idx", &self.expr(i, p)),
            ExprKind::Tup(es) => o.str("k", "tup").num("ln", ln).raw("es", &self.exprs(es, p)),
            ExprKind::Array(es) => o.str("k", "array").num("ln", ln).raw("es", &self.exprs(es, p)),
            ExprKind::Repeat(x, _) => o.str("k", "repeat").num("ln", ln).raw("e", &self.expr(x, p)),
            ExprKind::Struct(qpath, fields, tail) => {
                o = o.str("k", "struct").num("ln", ln);
                o = self.qpath_def(qpath, e.hir_id, o);
                let t = self.tr.expr_ty(e);
                if let ty::Adt(adt, _) = t.kind() {
                    o = o.str("adt", &tcx.def_path_str(adt.did()));
                }
                let mut fs = Vec::new();
                for f in fields.iter() {
                    fs.push(Obj::new().str("name", f.ident.as_str()).raw("e", &self.expr(f.expr, p)).done());
                }
                o = o.raw("fields", &arr(&fs));
                if let hir::StructTailExpr::Base(b) = tail {
                    o = o.raw("base", &self.expr(b, p));
                }
                o
            }
            ExprKind::If(c, t, el) => {
                o = o.str("k", "if").num("ln", ln).raw("cond", &self.expr(c, p)).raw("then", &self.expr(t, p));
                if let Some(el) = el {
                    o = o.raw("else", &self.expr(el, p));
                }
                o
            }
            ExprKind::Let(l) => o
                .str("k", "letexpr")
                .num("ln", ln)
                .raw("pat", &self.pat(l.pat))
                .raw("init", &self.expr(l.init, p)),
            ExprKind::Match(scrut, arms, src) => {
                o = o
                    .str("k", "match")
                    .num("ln", ln)
                    .str("src", &format!("{:?}", src).split('(').next().unwrap_or("").to_string())
                    .num("st", self.ty_of(scrut))
                    .raw("scrut", &self.expr(scrut, p));
                let mut av = Vec::new();
                for a in arms.iter() {
                    let mut ao = Obj::new().raw("pat", &self.pat(a.pat)).num("ln", self.cx.line(a.span) as i128);
                    if let Some(g) = a.guard {
                        ao = ao.raw("guard", &self.expr(g, p));
                    }
                    ao = ao.raw("body", &self.expr(a.body, p));
                    av.push(ao.done());
                }
                o.raw("arms", &arr(&av))
            }
            ExprKind::Loop(b, _, src, _) => o
                .str("k", "loop")
                .num("ln", ln)
                .str("src", &format!("{:?}", src))
                .raw("body", &self.block(b, p)),
            ExprKind::Block(b, _) => {
                let s = self.block(b, p);
                // splice: block json with line
                return format!("{{\"ln\":{},{}", ln, &s[1..]);
            }
            ExprKind::Closure(c) => {
                let body = tcx.hir_body(c.body);
                let mut params = Vec::new();
                for pp in body.params {
                    params.push(self.pat(pp.pat));
                }
                o.str("k", "closure")
                    .num("ln", ln)
                    .str("def", &tcx.def_path_str(c.def_id.to_def_id()))
                    .raw("params", &arr(&params))
                    .raw("body", &self.expr(body.value, p))
            }
            ExprKind::Ret(x) => {
                o = o.str("k", "ret").num("ln", ln);
                if let Some(x) = x {
                    o = o.raw("e", &self.expr(x, p));
                }
                o
            }
            ExprKind::Break(_, x) => {
                o = o.str("k", "break").num("ln", ln);
                if let Some(x) = x {
                    o = o.raw("e", &self.expr(x, p));
                }
                o
            }
            ExprKind::Continue(_) => o.str("k", "continue").num("ln", ln),
            ExprKind::Become(x) => o.str("k", "become").num("ln", ln).raw("e", &self.expr(x, p)),
            ExprKind::Yield(x, _) => o.str("k", "yield").num("ln", ln).raw("e", &self.expr(x, p)),
            ExprKind::ConstBlock(_) => o.str("k", "constblock").num("ln", ln),
            _ => o.str("k", "other").num("ln", ln),
        };
        let _ = self.owner;
        // merge macro info
        let m = mac_part.done();
        let body = o.done();
        if m.len() > 2 {
            format!("{},{}", &body[..body.len() - 1], &m[1..])
        } else {
            body
        }
    }
}
