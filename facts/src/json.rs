// Minimal JSON writer (no dependencies).
pub fn esc(s: &str) -> String {
    let mut o = String::with_capacity(s.len() + 2);
    o.push('"');
    for c in s.chars() {
        match c {
            '"' => o.push_str("\\\""),
            '\\' => o.push_str("\\\\"),
            '\n' => o.push_str("\\n"),
            '\r' => o.push_str("\\r"),
            '\t' => o.push_str("\\t"),
            c if (c as u32) < 0x20 => o.push_str(&format!("\\u{:04x}", c as u32)),
            c => o.push(c),
        }
    }
    o.push('"');
    o
}

/// JSON object builder.
pub struct Obj {
    s: String,
    first: bool,
}

impl Obj {
    pub fn new() -> Obj {
        Obj { s: String::from("{"), first: true }
    }
    fn key(&mut self, k: &str) {
        if !self.first {
            self.s.push(',');
        }
        self.first = false;
        self.s.push('"');
        self.s.push_str(k);
        self.s.push_str("\":");
    }
    pub fn str(mut self, k: &str, v: &str) -> Obj {
        self.key(k);
        self.s.push_str(&esc(v));
        self
    }
    pub fn num(mut self, k: &str, v: i128) -> Obj {
        self.key(k);
        self.s.push_str(&v.to_string());
        self
    }
    pub fn boolean(mut self, k: &str, v: bool) -> Obj {
        self.key(k);
        self.s.push_str(if v { "true" } else { "false" });
        self
    }
    pub fn raw(mut self, k: &str, v: &str) -> Obj {
        self.key(k);
        self.s.push_str(v);
        self
    }
    pub fn opt_str(self, k: &str, v: Option<&str>) -> Obj {
        match v {
            Some(v) => self.str(k, v),
            None => self,
        }
    }
    pub fn flag(self, k: &str, v: bool) -> Obj {
        if v {
            self.num(k, 1)
        } else {
            self
        }
    }
    pub fn done(mut self) -> String {
        self.s.push('}');
        self.s
    }
}

pub fn arr(items: &[String]) -> String {
    let mut s = String::from("[");
    for (i, it) in items.iter().enumerate() {
        if i > 0 {
            s.push(',');
        }
        s.push_str(it);
    }
    s.push(']');
    s
}

pub fn str_arr(items: &[String]) -> String {
    let v: Vec<String> = items.iter().map(|s| esc(s)).collect();
    arr(&v)
}
