// E0 — fact extractor for the umya-spreadsheet static checks.
//
// A rustc_private driver, injected with RUSTC_WORKSPACE_WRAPPER under
// `cargo +nightly check`. For the crate named by UMYA_FACTS_CRATE (default
// `umya_spreadsheet`) it writes, after analysis, three files into UMYA_FACTS_OUT:
//   <crate>[.test].items.json   ADTs, impls, traits, consts, type table, nonce
//   <crate>[.test].mir.jsonl    one JSON object per MIR body
//   <crate>[.test].hir.jsonl    one JSON object per HIR body owner (typed tree, closures inlined)
// Every other crate is compiled normally. Nothing is executed.
#![feature(rustc_private)]
#![feature(box_patterns)]
#![allow(clippy::all)]

extern crate rustc_abi;
extern crate rustc_ast;
extern crate rustc_data_structures;
extern crate rustc_driver;
extern crate rustc_hir;
extern crate rustc_index;
extern crate rustc_interface;
extern crate rustc_middle;
extern crate rustc_session;
extern crate rustc_span;

mod hirdump;
mod items;
mod json;
mod mirdump;

use rustc_driver::{Callbacks, Compilation};
use rustc_interface::interface::Compiler;
use rustc_middle::ty::TyCtxt;
use rustc_span::def_id::LOCAL_CRATE;
use std::collections::HashMap;
use std::io::Write;

pub struct Ctx<'tcx> {
    pub tcx: TyCtxt<'tcx>,
    pub types: Vec<String>,
    pub type_ix: HashMap<String, usize>,
}

impl<'tcx> Ctx<'tcx> {
    pub fn ty_id(&mut self, s: String) -> usize {
        if let Some(&i) = self.type_ix.get(&s) {
            return i;
        }
        let i = self.types.len();
        self.types.push(s.clone());
        self.type_ix.insert(s, i);
        i
    }
    pub fn ty(&mut self, t: rustc_middle::ty::Ty<'tcx>) -> usize {
        let s = format!("{}", t);
        self.ty_id(s)
    }
    pub fn loc(&self, span: rustc_span::Span) -> (String, usize) {
        let sp = span.source_callsite();
        let sm = self.tcx.sess.source_map();
        let pos = sm.lookup_char_pos(sp.lo());
        let name = match &pos.file.name {
            rustc_span::FileName::Real(r) => match r.local_path() {
                Some(p) => p.to_string_lossy().to_string(),
                None => format!("{:?}", pos.file.name),
            },
            other => format!("{:?}", other),
        };
        (name, pos.line)
    }
    pub fn line(&self, span: rustc_span::Span) -> usize {
        let sp = span.source_callsite();
        self.tcx.sess.source_map().lookup_char_pos(sp.lo()).line
    }
}

struct Cb;

impl Callbacks for Cb {
    fn after_analysis<'tcx>(&mut self, _c: &Compiler, tcx: TyCtxt<'tcx>) -> Compilation {
        let want = std::env::var("UMYA_FACTS_CRATE").unwrap_or_else(|_| "umya_spreadsheet".to_string());
        let name = tcx.crate_name(LOCAL_CRATE).to_string();
        let wanted: Vec<&str> = want.split(',').collect();
        if !wanted.contains(&name.as_str()) {
            return Compilation::Continue;
        }
        let out = match std::env::var("UMYA_FACTS_OUT") {
            Ok(o) => o,
            Err(_) => return Compilation::Continue,
        };
        let nonce = std::env::var("UMYA_FACTS_NONCE").unwrap_or_default();
        let is_test = tcx.sess.opts.test;
        let stem = if is_test { format!("{}.test", name) } else { name.clone() };
        rustc_middle::ty::print::with_no_trimmed_paths!({
            let mut cx = Ctx { tcx, types: Vec::new(), type_ix: HashMap::new() };
            let mir = mirdump::dump(&mut cx);
            let hir = hirdump::dump(&mut cx);
            let items = items::dump(&mut cx, &nonce, &name, is_test);
            let w = |suffix: &str, data: &str| {
                let tmp = format!("{}/{}.{}.tmp", out, stem, suffix);
                let fin = format!("{}/{}.{}", out, stem, suffix);
                let mut f = std::fs::File::create(&tmp).expect("create fact file");
                f.write_all(data.as_bytes()).expect("write fact file");
                f.flush().expect("flush");
                drop(f);
                std::fs::rename(&tmp, &fin).expect("rename fact file");
            };
            w("mir.jsonl", &mir);
            w("hir.jsonl", &hir);
            w("items.json", &items);
        });
        Compilation::Continue
    }
}

fn main() {
    let mut args: Vec<String> = std::env::args().collect();
    // RUSTC_WORKSPACE_WRAPPER: argv[1] is the real rustc path
    if args.len() > 1 && (args[1].ends_with("rustc") || args[1].contains("/rustc")) {
        args.remove(1);
    }
    let mut cb = Cb;
    rustc_driver::run_compiler(&args, &mut cb);
}
