// Item facts: ADTs, impls, traits, consts/statics, the interned type table.
use crate::json::{arr, str_arr, Obj};
use crate::Ctx;
use rustc_hir::def::DefKind;
use rustc_middle::ty::{self, TypingEnv};

pub fn dump<'tcx>(cx: &mut Ctx<'tcx>, nonce: &str, crate_name: &str, is_test: bool) -> String {
    let tcx = cx.tcx;
    let mut adts = Vec::new();
    let mut impls = Vec::new();
    let mut traits = Vec::new();
    let mut consts = Vec::new();
    let mut fns_nobody = Vec::new();

    let mut defs: Vec<rustc_span::def_id::LocalDefId> = tcx.iter_local_def_id().collect();
    defs.sort_by_key(|d| tcx.def_path_str(d.to_def_id()));
    for ldid in defs {
        let did = ldid.to_def_id();
        let kind = tcx.def_kind(did);
        match kind {
            DefKind::Struct | DefKind::Enum | DefKind::Union => {
                let adt = tcx.adt_def(did);
                let (file, line) = cx.loc(tcx.def_span(did));
                let mut o = Obj::new()
                    .str("path", &tcx.def_path_str(did))
                    .str("kind", if adt.is_enum() { "enum" } else if adt.is_union() { "union" } else { "struct" })
                    .str("file", &file)
                    .num("line", line as i128)
                    .flag("pub", tcx.visibility(did).is_public());
                let mut variants = Vec::new();
                for v in adt.variants().iter() {
                    let mut fields = Vec::new();
                    for f in v.fields.iter() {
                        let fty = tcx.type_of(f.did).instantiate_identity().skip_norm_wip();
                        fields.push(
                            Obj::new()
                                .str("name", f.name.as_str())
                                .str("ty", &format!("{}", fty))
                                .flag("pub", f.vis.is_public())
                                .done(),
                        );
                    }
                    variants.push(Obj::new().str("name", v.name.as_str()).raw("fields", &arr(&fields)).done());
                }
                o = o.raw("variants", &arr(&variants));
                adts.push(o.done());
            }
            DefKind::Impl { .. } => {
                let self_ty = tcx.type_of(did).instantiate_identity().skip_norm_wip();
                let (file, line) = cx.loc(tcx.def_span(did));
                let mut o = Obj::new()
                    .str("self_ty", &format!("{}", self_ty))
                    .str("file", &file)
                    .num("line", line as i128);
                if let ty::Adt(adt, _) = self_ty.kind() {
                    o = o.str("self_adt", &tcx.def_path_str(adt.did()));
                }
                if let Some(tr) = tcx.impl_opt_trait_ref(did) {
                    let tr = tr.instantiate_identity().skip_norm_wip();
                    o = o.str("trait", &tcx.def_path_str(tr.def_id));
                }
                o = o.flag("derived", tcx.is_automatically_derived(did));
                let mut methods = Vec::new();
                for item in tcx.associated_items(did).in_definition_order() {
                    if matches!(item.kind, ty::AssocKind::Fn { .. }) {
                        methods.push(tcx.def_path_str(item.def_id));
                    }
                }
                o = o.raw("methods", &str_arr(&methods));
                impls.push(o.done());
            }
            DefKind::Trait => {
                let mut methods = Vec::new();
                for item in tcx.associated_items(did).in_definition_order() {
                    if matches!(item.kind, ty::AssocKind::Fn { .. }) {
                        methods.push(
                            Obj::new()
                                .str("name", item.name().as_str())
                                .str("def", &tcx.def_path_str(item.def_id))
                                .flag("has_default", item.defaultness(tcx).has_value())
                                .done(),
                        );
                    }
                }
                traits.push(Obj::new().str("path", &tcx.def_path_str(did)).raw("methods", &arr(&methods)).done());
            }
            DefKind::Const { .. } | DefKind::Static { .. } | DefKind::AssocConst { .. } => {
                let ty = tcx.type_of(did).instantiate_identity().skip_norm_wip();
                let (file, line) = cx.loc(tcx.def_span(did));
                let mut o = Obj::new()
                    .str("path", &tcx.def_path_str(did))
                    .str("ty", &format!("{}", ty))
                    .str("file", &file)
                    .num("line", line as i128);
                // evaluate simple constants (&str, ints)
                if matches!(kind, DefKind::Const { .. }) && tcx.generics_of(did).is_empty() {
                    let typing_env = TypingEnv::fully_monomorphized();
                    if let Ok(val) = tcx.const_eval_poly(did) {
                        let c = rustc_middle::mir::Const::Val(val, ty);
                        let j = crate::mirdump::const_json(cx, &c, typing_env);
                        o = o.raw("value", &j);
                    }
                }
                consts.push(o.done());
            }
            DefKind::Fn | DefKind::AssocFn => {
                if !tcx.is_mir_available(did) {
                    let o = crate::mirdump::fn_common(cx, did, Obj::new());
                    fns_nobody.push(o.done());
                }
            }
            _ => {}
        }
    }
    Obj::new()
        .str("nonce", nonce)
        .str("crate", crate_name)
        .boolean("test", is_test)
        .raw("adts", &arr(&adts))
        .raw("impls", &arr(&impls))
        .raw("traits", &arr(&traits))
        .raw("consts", &arr(&consts))
        .raw("fns_nobody", &arr(&fns_nobody))
        .raw("types", &str_arr(&cx.types))
        .done()
}
